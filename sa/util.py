"""Shared helpers for the rules."""

from __future__ import annotations

import ast
from typing import Iterable, Iterator

from .cfg import CFG, Node, cfg_of
from .core import Ctx
from .dataflow import walk_body, walk_scope
from .model import Func, Repo, dotted, parent
from .terms import Term, subterms


def calls_in(func: Func) -> Iterator[ast.Call]:
    roots = [func.node.body] if isinstance(func.node, ast.Lambda) else func.node.body
    for n in walk_body(roots):
        if isinstance(n, ast.Call):
            yield n


def nodes_in(func: Func, types) -> Iterator[ast.AST]:
    roots = [func.node.body] if isinstance(func.node, ast.Lambda) else func.node.body
    for n in walk_body(roots):
        if isinstance(n, types):
            yield n


def call_sites_to(ctx: Ctx, targets: Iterable[Func]) -> list[tuple[Func, ast.Call]]:
    out: list[tuple[Func, ast.Call]] = []
    seen = set()
    for t in targets:
        for caller, call in ctx.cg.callers(t):
            if id(call) not in seen:
                seen.add(id(call))
                out.append((caller, call))
    return sorted(out, key=lambda p: (p[0].module.relpath, p[1].lineno, p[1].col_offset))


def stmt_of(node: ast.AST) -> ast.stmt | None:
    cur: ast.AST | None = node
    while cur is not None and not isinstance(cur, ast.stmt):
        cur = parent(cur)
    return cur  # type: ignore[return-value]


def enclosing_func_node(node: ast.AST) -> ast.AST | None:
    cur = parent(node)
    while cur is not None and not isinstance(cur, (ast.FunctionDef, ast.AsyncFunctionDef, ast.Lambda)):
        cur = parent(cur)
    return cur


def catching_handler(repo: Repo, func: Func, node: ast.AST, exc_qual: str) -> ast.AST | None:
    """Innermost construct inside ``func`` that definitely catches an
    exception of class ``exc_qual`` raised at ``node`` (an ``except`` clause or
    a ``contextlib.suppress`` item); None when it escapes the function."""
    cfg = cfg_of(repo, func)
    child: ast.AST = node
    cur = parent(node)
    while cur is not None and cur is not func.node:
        if isinstance(cur, ast.Try) and any(child is s for s in cur.body):
            for h in cur.handlers:
                if cfg._match(exc_qual, cfg._handler_classes(h)) == "yes":
                    return h
        if isinstance(cur, (ast.With, ast.AsyncWith)) and any(child is s for s in cur.body):
            for item in cur.items:
                classes = cfg._suppress_classes(item.context_expr)
                if classes is not None and cfg._match(exc_qual, classes) == "yes":
                    return item
        child = cur
        cur = parent(cur)
    return None


def handler_reraises(handler: ast.ExceptHandler) -> bool:
    """True when the handler body contains a bare ``raise`` or ``raise <name
    bound by the handler>`` at its top level of control (conservative)."""
    for n in ast.walk(handler):
        if isinstance(n, ast.Raise):
            if n.exc is None:
                return True
            if handler.name and isinstance(n.exc, ast.Name) and n.exc.id == handler.name:
                return True
    return False


def cfg_nodes_of_call(repo: Repo, func: Func, call: ast.AST) -> list[Node]:
    return cfg_of(repo, func).node_containing(call)


def np_name(t: Term) -> str | None:
    """'where' for numpy.where(...) call terms, also for method forms x.sum()."""
    if t[0] != "call":
        return None
    fn = t[1]
    if fn[0] == "global" and fn[1].startswith("numpy."):
        return fn[1][len("numpy."):]
    return None


def const_value(t: Term):
    return t[1] if t[0] == "const" else None


def strip_wrappers(t: Term) -> Term:
    """See through value-preserving wrappers: np.array/asarray/float/.copy()."""
    while True:
        if t[0] == "call":
            fn = t[1]
            if fn[0] == "global" and fn[1] in ("numpy.array", "numpy.asarray", "numpy.ascontiguousarray") and t[2]:
                t = t[2][0]
                continue
            if fn[0] == "builtin" and fn[1] in ("float", "int", "bool") and len(t[2]) == 1:
                t = t[2][0]
                continue
            if fn[0] == "attr" and fn[2] in ("copy", "flatten", "ravel", "tolist") and not t[2]:
                t = fn[1]
                continue
        return t


def module_const(repo: Repo, qual: str):
    """Python value of a module-level constant (literal or set/dict of
    literals, lower-cased comprehension over a literal list/tuple)."""
    modname, _, cname = qual.rpartition(".")
    m = repo.modules.get(modname)
    if m is None or cname not in m.constants:
        return None
    return _literal(m.constants[cname])


def _literal(e: ast.AST):
    try:
        return ast.literal_eval(e)
    except Exception:  # noqa: BLE001
        pass
    # {name.lower() for name in [...]} idiom
    if isinstance(e, (ast.SetComp, ast.ListComp)) and len(e.generators) == 1:
        g = e.generators[0]
        try:
            seq = ast.literal_eval(g.iter)
        except Exception:  # noqa: BLE001
            return None
        elt = e.elt
        if (
            isinstance(elt, ast.Call)
            and isinstance(elt.func, ast.Attribute)
            and elt.func.attr == "lower"
            and isinstance(elt.func.value, ast.Name)
            and isinstance(g.target, ast.Name)
            and elt.func.value.id == g.target.id
        ):
            vals = [s.lower() for s in seq]
            return set(vals) if isinstance(e, ast.SetComp) else vals
    return None


def deep_subterms(ctx: Ctx, f: Func, t: Term, max_depth: int = 4, prune=None):
    """All (function, subterm) pairs reachable from ``t`` (evaluated in
    ``f``): follows loop links, expands parameters backwards through every
    resolved call site, and calls of package functions forwards through their
    return terms (tuple items by position).  Context-insensitive, bounded."""
    from .callgraph import _is_bound_call, bind_args

    seen: set = set()
    out: list = []

    def visit(g: Func, x: Term, depth: int) -> None:
        key = (g.qualname, x)
        if key in seen or depth > max_depth:
            return
        seen.add(key)
        k = x[0]
        out.append((g, x))
        if prune is not None:
            kids = prune(g, x)
            if kids is not None:
                for y in kids:
                    visit(g, y, depth)
                return
        if k == "rec" and len(x) >= 5:
            visit(ctx.repo.funcs[x[3]], ctx.X.deref(x), depth)
            return
        if k == "param":
            pf = ctx.repo.funcs.get(x[1])
            if pf is not None:
                for caller, call in ctx.cg.callers(pf):
                    ct = ctx.X.at(caller, call)
                    arg = bind_args(pf, ct, bound=_is_bound_call(ct, pf)).get(x[2])
                    if arg is not None:
                        visit(caller, arg, depth + 1)
            return
        # component i of a call of a package function that returns a tuple: `a, b = f()` and `r = f(); r[1]` alike
        comp = None
        if k == "item" and x[1][0] == "call":
            comp = x[2]
        elif k == "sub" and x[1][0] == "call" and x[2][0] == "const" and isinstance(x[2][1], int) and not isinstance(x[2][1], bool):
            comp = x[2][1]
        if comp is not None:
            done = False
            for h in ctx.cg.resolve_fn(x[1][1], g):
                rt = ctx.X.return_term(h)
                for a in (rt[1] if rt[0] == "phi" else (rt,)):
                    if a[0] == "tuple" and 0 <= comp < len(a[1]):
                        visit(h, a[1][comp], depth + 1)
                        done = True
            if done:
                return
        if k == "call":
            for h in ctx.cg.resolve_fn(x[1], g):
                if h.name not in ("__init__", "__post_init__") and not isinstance(h.node, ast.Lambda):
                    visit(h, ctx.X.return_term(h), depth + 1)
        from .terms import children

        for y in children(x):
            visit(g, y, depth)

    visit(f, t, 0)
    return out


def deep_leaf_attrs(ctx: Ctx, f: Func, t: Term, max_depth: int = 4) -> set[str]:
    """Names of attribute leaves (config fields etc.) ``t`` derives from."""
    from .terms import root_of

    out = set()
    for _g, s in deep_subterms(ctx, f, t, max_depth):
        if s[0] == "attr" and root_of(s)[0] in ("param", "rec"):
            out.add(s[2])
    return out


# ------------------------------------------------------------ guarded values
_IDENTITY_WRAPPERS = {("global", "numpy.asarray"), ("global", "numpy.array"), ("global", "numpy.asanyarray")}


def norm_cond(c):
    """(atom, polarity) of a boolean condition: `x is not None` -> (x is None, False), `not c` -> (c, False)."""
    from .pattern import norm

    c = norm(c)
    pol = True
    while True:
        if c[0] == "unary" and c[1] in ("not", "~"):
            c, pol = c[2], not pol
            continue
        if c[0] == "cmp" and c[1] == "is not":
            c, pol = ("cmp", "is", c[2], c[3]), not pol
            continue
        if c[0] == "cmp" and c[1] == "!=":
            c, pol = ("cmp", "==", c[2], c[3]), not pol
            continue
        if c[0] == "cmp" and c[1] == "not in":
            c, pol = ("cmp", "in", c[2], c[3]), not pol
            continue
        return c, pol


def strict_lt(atom, pol):
    """Canonical form of an ordering test on totally ordered values (integers, counts):
    `a <= b` == not (b < a).  Not valid for floats that may be NaN."""
    if atom[0] == "cmp" and atom[1] == "<=":
        return ("cmp", "<", atom[3], atom[2]), not pol
    return atom, pol


def guard_leaves(t, strip_wrappers: bool = True, _conds=()):
    """Leaves of a value written with conditional expressions (after helper inlining:
    early returns): yields (conditions, leaf) with conditions a tuple of (atom, polarity);
    infeasible combinations (an atom with both polarities) are dropped.  `a and b`
    conditions contribute both atoms on the true branch; on the false branch they are
    kept as one compound atom."""
    k = t[0]
    if k == "ifexp":
        atom, pol = norm_cond(t[1])
        tc = [(atom, pol)]
        fc = [(atom, not pol)]
        if atom[0] == "bool" and atom[1] == "and" and pol:
            tc = [norm_cond(x) for x in atom[2]]
        if atom[0] == "bool" and atom[1] == "or" and not pol:
            # not (a or b) on the true branch == (not a) and (not b)
            tc = [(a, not p) for a, p in (norm_cond(x) for x in atom[2])]
        if atom[0] == "bool" and atom[1] == "or" and pol:
            fc = [(a, not p) for a, p in (norm_cond(x) for x in atom[2])]
        if atom[0] == "bool" and atom[1] == "and" and not pol:
            fc = [norm_cond(x) for x in atom[2]]
        for extra, branch in ((tc, t[2]), (fc, t[3])):
            conds = _conds + tuple(extra)
            d = {}
            feasible = True
            for a, p in conds:
                if d.setdefault(a, p) != p:
                    feasible = False
            if feasible:
                yield from guard_leaves(branch, strip_wrappers, conds)
        return
    if k == "phi":
        for a in t[1]:
            yield from guard_leaves(a, strip_wrappers, _conds)
        return
    if strip_wrappers and k == "call" and t[1] in _IDENTITY_WRAPPERS and len(t[2]) == 1 and t[2][0][0] in ("ifexp", "phi"):
        for conds, leaf in guard_leaves(t[2][0], strip_wrappers, _conds):
            yield conds, ("call", t[1], (leaf,), t[3])
        return
    yield _conds, t


def cond_value(conds, atom):
    """True / False when the conditions fix `atom`, else None."""
    for a, p in conds:
        if a == atom:
            return p
    return None


def _enclosing_conds(ctx, f, stmt_or_expr):
    """Conditions of the enclosing `if` statements / conditional expressions of a node, innermost last."""
    from .model import parent

    out = []
    child, cur = stmt_or_expr, parent(stmt_or_expr)
    while cur is not None and cur is not f.node:
        if isinstance(cur, ast.If) and child is not cur.test:
            pol = any(child is s for s in cur.body)
            a, p = norm_cond(ctx.X.value_at(f, cur.test))
            out.append((a, p if pol else not p))
        elif isinstance(cur, ast.IfExp) and child is not cur.test:
            a, p = norm_cond(ctx.X.value_at(f, cur.test))
            out.append((a, p if child is cur.body else not p))
        elif isinstance(cur, (ast.FunctionDef, ast.AsyncFunctionDef, ast.Lambda, ast.ClassDef)):
            break
        child, cur = cur, parent(cur)
    out.reverse()
    return tuple(out)


def _always_assigns(stmts, var: str) -> bool:
    for s in stmts or []:
        if isinstance(s, ast.Assign) and any(isinstance(t, ast.Name) and t.id == var for t in s.targets):
            return True
        if isinstance(s, (ast.AnnAssign, ast.AugAssign)) and isinstance(s.target, ast.Name) and s.target.id == var and getattr(s, "value", None) is not None:
            return True
        if isinstance(s, ast.If) and _always_assigns(s.body, var) and _always_assigns(s.orelse, var):
            return True
        if isinstance(s, ast.With) and _always_assigns(s.body, var):
            return True
    return False


def _survival_conds(ctx, f, def_stmt: ast.AST, use: ast.AST, var: str) -> tuple:
    """Conditions that hold whenever the definition made by `def_stmt` is still the value of `var` at `use`: an `if`
    statement between the two (a later sibling of the definition) one branch of which always re-assigns `var` was left
    through its other branch.  `v = A; if c: v = B` gives A under `not c`, like `v = B if c else A`."""
    from .model import parent

    if not isinstance(def_stmt, ast.stmt):
        return ()
    par = parent(def_stmt)
    lst = None
    for fld in ("body", "orelse", "finalbody"):
        cand = getattr(par, fld, None)
        if isinstance(cand, list) and any(x is def_stmt for x in cand):
            lst = cand
    if lst is None:
        return ()
    out = []
    i = next(k for k, x in enumerate(lst) if x is def_stmt)
    for s in lst[i + 1:]:
        if any(x is use for x in ast.walk(s)):
            break
        if isinstance(s, ast.If):
            b, o = _always_assigns(s.body, var), _always_assigns(s.orelse, var)
            if b != o:
                a, p = norm_cond(ctx.X.value_at(f, s.test))
                out.append((a, (not p) if b else p))
    return tuple(out)


def gated_values(ctx, f, expr: ast.AST, _depth: int = 0, _seen=None, strip_wrappers: bool = False):
    """[(conditions, leaf term)] for the value of ``expr``: local variables are followed to
    their definitions (each with the conditions of its enclosing if statements), conditional
    expressions are split, transparent helpers are looked into (their early returns become
    conditions).  The three spellings `if c: v = A else: v = B`, `v = A if c else B` and
    `v = helper(...)` give the same leaves."""
    X = ctx.X
    _seen = _seen or set()
    out = []
    if isinstance(expr, ast.Name) and _depth < 6:
        df = X.df(f)
        node = X.node_of(f, expr)
        if expr.id in df.locals and node is not None:
            defs = [d for d in df.reaching(node, expr.id) if d.kind != "unbound"]  # "not yet bound" is not a value
            simple = [d for d in defs if d.kind == "assign" and not d.path and d.value is not None and d.node is not None]
            if defs and len(simple) == len(defs):
                for d in sorted(simple, key=lambda d: d.id):
                    if d.id in _seen:
                        continue
                    dstmt = d.node.stmt if getattr(d.node, "stmt", None) is not None else d.value
                    conds = _enclosing_conds(ctx, f, dstmt) + _survival_conds(ctx, f, dstmt, expr, expr.id)
                    for c2, leaf in gated_values(ctx, f, d.value, _depth + 1, _seen | {d.id}, strip_wrappers):
                        out.append((conds + c2, leaf))
                return _feasible(out)
    if isinstance(expr, ast.IfExp):
        a, p = norm_cond(X.value_at(f, expr.test))
        for branch, pol in ((expr.body, p), (expr.orelse, not p)):
            for c2, leaf in gated_values(ctx, f, branch, _depth + 1, _seen, strip_wrappers):
                out.append((((a, pol),) + c2, leaf))
        return _feasible(out)
    t = X.force_inline(X.value_at(f, expr), f)
    return _feasible(list(guard_leaves(t, strip_wrappers=strip_wrappers)))


def _feasible(items):
    out = []
    for conds, leaf in items:
        d = {}
        ok = True
        for a, p in conds:
            if d.setdefault(a, p) != p:
                ok = False
        if ok:
            out.append((conds, leaf))
    return out


# ------------------------------------------------- path conditions (structured code)
def always_exits(stmts) -> bool:
    """The statement list cannot fall through (ends in return / raise / continue / break on every branch)."""
    for st in stmts:
        if isinstance(st, (ast.Return, ast.Raise, ast.Continue, ast.Break)):
            return True
        if isinstance(st, ast.If) and st.orelse and always_exits(st.body) and always_exits(st.orelse):
            return True
        # try: every way out of the statement leaves the list - the body (or its else part) and every handler exit,
        # or the finally part does
        if isinstance(st, ast.Try):
            if st.finalbody and always_exits(st.finalbody):
                return True
            body_exits = always_exits(st.body) or (bool(st.orelse) and always_exits(st.orelse))
            if body_exits and all(always_exits(h.body) for h in st.handlers):
                return True
        if isinstance(st, ast.With) and always_exits(st.body) and not any(
                isinstance(x, ast.Call) and "suppress" in ast.unparse(x.func) for it in st.items for x in ast.walk(it.context_expr)):
            return True
    return False


def path_condition(ctx, f, stmt: ast.AST):
    """[(test term, polarity)] that hold when ``stmt`` executes, from the structure of the code:
    the tests of the enclosing `if` statements, and the negated tests of earlier siblings of the
    form `if c: <always exits>` (early returns / raises) in every enclosing statement list.
    Test terms are values (helpers inlined), not normalised."""
    from .model import parent

    out = []
    child, cur = stmt, parent(stmt)
    while cur is not None:
        for fld in ("body", "orelse", "finalbody"):
            lst = getattr(cur, fld, None)
            if isinstance(lst, list) and any(child is s for s in lst):
                idx = next(i for i, s in enumerate(lst) if s is child)
                for prev in lst[:idx]:
                    if isinstance(prev, ast.If):
                        if always_exits(prev.body) and not (prev.orelse and always_exits(prev.orelse)):
                            out.append((ctx.X.value_at(f, prev.test), False))
                        elif prev.orelse and always_exits(prev.orelse) and not always_exits(prev.body):
                            out.append((ctx.X.value_at(f, prev.test), True))
                if isinstance(cur, ast.If):
                    out.append((ctx.X.value_at(f, cur.test), fld == "body"))
                if isinstance(cur, ast.match_case) and fld == "body" and isinstance(parent(cur), ast.Match):
                    # `match S: case V: ...`: S == V here, S != V' for the value patterns of the earlier cases
                    mt = parent(cur)
                    subj = ctx.X.value_at(f, mt.subject)

                    def pat_term(p):
                        if isinstance(p, ast.MatchValue):
                            return ("cmp", "==", subj, ctx.X.value_at(f, p.value))
                        if isinstance(p, ast.MatchSingleton):
                            return ("cmp", "is", subj, ("const", p.value))
                        if isinstance(p, ast.MatchOr):
                            parts = [pat_term(x) for x in p.patterns]
                            return ("bool", "or", tuple(parts)) if all(x is not None for x in parts) else None
                        if isinstance(p, ast.MatchSequence) and all(isinstance(x, ast.MatchAs) and x.pattern is None for x in p.patterns):
                            # `case [a, b]` (captures / wildcards only): the subject has exactly that many items
                            return ("cmp", "==", ("call", ("builtin", "len"), (subj,), ()), ("const", len(p.patterns)))
                        return None

                    # the negation of a sequence pattern says something about the length only for a subject known to
                    # be a list or tuple (`s.split(...)`, a display): other objects fail the pattern whatever their length
                    subj_is_seq = subj[0] in ("list", "tuple") or (subj[0] == "call" and subj[1][0] == "attr" and subj[1][2] in ("split", "rsplit", "splitlines", "partition", "rpartition"))
                    for prev_case in mt.cases:
                        if prev_case is cur:
                            break
                        pt_ = pat_term(prev_case.pattern)
                        if pt_ is not None and prev_case.guard is None and (subj_is_seq or not isinstance(prev_case.pattern, ast.MatchSequence)):
                            out.append((pt_, False))
                    pt_ = pat_term(cur.pattern)
                    if pt_ is not None:
                        out.append((pt_, True))
                    if cur.guard is not None:
                        out.append((ctx.X.value_at(f, cur.guard), True))
                if isinstance(cur, ast.For) and fld == "body":
                    # a loop over a filtered comprehension: its `if` holds for every element the body sees
                    from .terms import _retag, comp_loop_ids

                    it = ctx.X.at(f, cur.iter)
                    if it[0] == "comp" and it[1] in ("list", "gen", "set") and any(g_[2] for g_ in it[3]):
                        ids = comp_loop_ids(it)
                        if len(ids) == 1:
                            for g_ in it[3]:
                                for c_ in g_[2]:
                                    out.append((_retag(c_, next(iter(ids)), cur.lineno), True))
        if cur is f.node or isinstance(cur, (ast.FunctionDef, ast.AsyncFunctionDef, ast.Lambda, ast.ClassDef)):
            break
        child, cur = cur, parent(cur)
    return out


def bool_nnf(t, pol: bool = True):
    """Negation normal form of a boolean term: ('or', items) | ('and', items) | ('lit', atom, polarity).
    Conditional expressions with constant branches (helpers with early `return False/True`)
    and bool(...) wrappers are boolean connectives."""
    from .pattern import norm

    t = norm(t)
    k = t[0]
    if k == "unary" and t[1] in ("not",):
        return bool_nnf(t[2], not pol)
    if k == "call" and t[1] == ("builtin", "bool") and len(t[2]) == 1:
        return bool_nnf(t[2][0], pol)
    if k == "bool":
        items = [bool_nnf(x, pol) for x in t[2]]
        op = t[1] if pol else ("or" if t[1] == "and" else "and")
        return _flat_bool(op, items)
    if k == "ifexp":
        c, a, b = t[1], t[2], t[3]
        T, F = ("const", True), ("const", False)
        if a == F:
            return bool_nnf(("bool", "and", (("unary", "not", c), b)), pol)
        if a == T:
            return bool_nnf(("bool", "or", (c, b)), pol)
        if b == F:
            return bool_nnf(("bool", "and", (c, a)), pol)
        if b == T:
            return bool_nnf(("bool", "or", (("unary", "not", c), a)), pol)
        return bool_nnf(("bool", "or", (("bool", "and", (c, a)), ("bool", "and", (("unary", "not", c), b)))), pol)
    if k == "const" and isinstance(t[1], bool):
        return ("lit", ("const", True), t[1] == pol)
    a, p = norm_cond(t)
    return ("lit", a, p == pol)


def _flat_bool(op, items):
    out = []
    for it in items:
        if it[0] == op:
            out += list(it[1])
        else:
            out.append(it)
    # constants
    keep = []
    for it in out:
        if it[0] == "lit" and it[1] == ("const", True):
            val = it[2]
            if (op == "or" and val) or (op == "and" and not val):
                return ("lit", ("const", True), val)
            continue
        keep.append(it)
    if not keep:
        return ("lit", ("const", True), op == "and")
    return keep[0] if len(keep) == 1 else (op, tuple(keep))


def nnf_literals(n):
    if n[0] == "lit":
        return [(n[1], n[2])]
    return [x for it in n[1] for x in nnf_literals(it)]


# ------------------------------------------------------------ linear integer forms
def linear_form(t):
    """(coefficients {atom term: number}, constant) of a term built with + - unary minus and
    constant factors; any other subterm is an atom."""
    from .pattern import norm

    t = norm(t)
    coeffs: dict = {}
    const = [0]

    def add_(x, k):
        if x[0] == "const" and isinstance(x[1], (int, float)) and not isinstance(x[1], bool):
            const[0] += k * x[1]
        elif x[0] == "binop" and x[1] == "+":
            add_(x[2], k)
            add_(x[3], k)
        elif x[0] == "unary" and x[1] == "-":
            add_(x[2], -k)
        elif x[0] == "binop" and x[1] == "*" and x[2][0] == "const" and isinstance(x[2][1], (int, float)):
            add_(x[3], k * x[2][1])
        elif x[0] == "binop" and x[1] == "*" and x[3][0] == "const" and isinstance(x[3][1], (int, float)):
            add_(x[2], k * x[3][1])
        elif x[0] == "call" and x[1][0] == "builtin" and x[1][1] in ("int", "float") and len(x[2]) == 1:
            add_(x[2][0], k)
        else:
            coeffs[x] = coeffs.get(x, 0) + k

    add_(t, 1)
    return {a: c for a, c in coeffs.items() if c != 0}, const[0]


def linear_cmp(atom, pol: bool = True, integers: bool = True):
    """`L op R` (with polarity) as (coeffs, const, op) meaning  sum(coeffs) + const  op  0  with op in
    {'>=', '==', '!='}; strict comparisons between integers are rewritten (x > 0 == x - 1 >= 0).
    None when the atom is not an arithmetic comparison."""
    if atom[0] != "cmp" or atom[1] not in ("<", "<=", ">", ">=", "==", "!="):
        return None
    op = atom[1]
    if not pol:
        op = {"<": ">=", "<=": ">", ">": "<=", ">=": "<", "==": "!=", "!=": "=="}[op]
    lc, lk = linear_form(atom[2])
    rc, rk = linear_form(atom[3])
    coeffs = dict(lc)
    for a, c in rc.items():
        coeffs[a] = coeffs.get(a, 0) - c
    const = lk - rk
    if op in ("<", "<="):  # L < R  ==  R - L > 0
        coeffs = {a: -c for a, c in coeffs.items()}
        const = -const
        op = ">" if op == "<" else ">="
    if op == ">":
        if not integers:
            return None
        const -= 1
        op = ">="
    return {a: c for a, c in coeffs.items() if c != 0}, const, op


def value_alts(t, deep: bool = False) -> set:
    """Normalised alternatives of a value, whatever the spelling of the choice (if/else
    assignment, conditional expression, early return).  ``deep``: choices nested inside
    arithmetic are distributed outwards (`phi{a, b} / s` -> {a / s, b / s}), bounded."""
    from .pattern import norm
    from .terms import alts, ifexp_to_phi

    t = ifexp_to_phi(t)
    if not deep:
        return {norm(b) for b in alts(t)}
    return {norm(b) for b in _distribute(t, 0)}


def _distribute(t, depth: int) -> list:
    """Alternatives of a term with the merges nested in binop / unary / aug operands pulled out."""
    if depth > 6 or not isinstance(t, tuple) or not t:
        return [t]
    k = t[0]
    if k == "phi":
        out = []
        for a in t[1]:
            for x in _distribute(a, depth + 1):
                if x not in out:
                    out.append(x)
        return out[:64]
    if k in ("binop", "aug") and len(t) == 4:
        ls, rs = _distribute(t[2], depth + 1), _distribute(t[3], depth + 1)
        if len(ls) * len(rs) > 64:
            return [t]
        return [(k, t[1], a, b) for a in ls for b in rs]
    if k == "unary":
        return [(k, t[1], a) for a in _distribute(t[2], depth + 1)]
    return [t]


def tuple_components(t, n: int):
    """Per-position alternatives of an n-tuple value (a tuple of merged values, or a merge of
    tuples); None when some alternative is not an n-tuple."""
    from .terms import alts, ifexp_to_phi

    comps = [set() for _ in range(n)]
    for a in alts(ifexp_to_phi(t)):
        if a[0] != "tuple" or len(a[1]) != n:
            return None
        for i in range(n):
            comps[i] |= value_alts(a[1][i])
    return comps


def value_closure(ctx, t):
    """Subterms a value is *made of* (following loop links): indices of subscripts, conditions of
    conditional expressions and keys of stores are positions, not content, and are skipped."""
    from .terms import children

    seen_rec: set = set()
    seen: set = set()
    stack = [t]
    while stack:
        x = stack.pop()
        if not isinstance(x, tuple) or not x or not isinstance(x[0], str):
            continue
        if x in seen:
            continue
        seen.add(x)
        yield x
        k = x[0]
        if k == "rec" and len(x) >= 5:
            if (x[3], x[4]) not in seen_rec:
                seen_rec.add((x[3], x[4]))
                stack.append(ctx.X.deref(x))
            continue
        if k == "sub":
            stack.append(x[1])
        elif k == "update":
            stack.append(x[1])
            stack.append(x[4])
        elif k == "ifexp":
            stack.append(x[2])
            stack.append(x[3])
        else:
            stack.extend(children(x))


def walrus_binds_before(root: ast.AST, use: ast.Name) -> bool:
    """Inside one evaluated expression/statement ``root``: is there a `(name := ...)` binding ``use.id`` that is
    definitely evaluated before the read ``use`` whenever the read is evaluated?  (Python evaluates operands left
    to right, the test of a conditional expression first, later operands of and/or only after the earlier ones.)"""
    from .model import parent

    def chain(n):
        out = [n]
        while out[-1] is not root and parent(out[-1]) is not None:
            out.append(parent(out[-1]))
        return out if out[-1] is root else None

    uchain = chain(use)
    if uchain is None:
        return False
    upos = {id(x): i for i, x in enumerate(uchain)}
    for w in ast.walk(root):
        if not (isinstance(w, ast.NamedExpr) and isinstance(w.target, ast.Name) and w.target.id == use.id):
            continue
        wchain = chain(w)
        if wchain is None:
            continue
        # lowest common ancestor
        lca_i = next((i for i, x in enumerate(wchain) if id(x) in upos), None)
        if lca_i is None or lca_i == 0:
            # the use is inside the walrus' own value: evaluated before the binding
            continue
        lca = wchain[lca_i]
        wbranch = wchain[lca_i - 1]
        ui = upos[id(lca)]
        if ui == 0:
            continue
        ubranch = uchain[ui - 1]
        # the walrus must be evaluated unconditionally within its branch
        cond = False
        for child, par in zip(wchain[:lca_i - 1], wchain[1:lca_i]):
            if isinstance(par, ast.BoolOp) and par.values and par.values[0] is not child:
                cond = True
            if isinstance(par, ast.IfExp) and child is not par.test:
                cond = True
            if isinstance(par, (ast.ListComp, ast.SetComp, ast.GeneratorExp, ast.DictComp, ast.Lambda)):
                cond = True
        if cond:
            continue
        if isinstance(lca, ast.IfExp):
            if wbranch is lca.test and ubranch is not lca.test:
                return True
            continue
        if isinstance(lca, ast.BoolOp):
            vals = list(lca.values)
            if any(v is wbranch for v in vals) and any(v is ubranch for v in vals):
                if [i for i, v in enumerate(vals) if v is wbranch][0] < [i for i, v in enumerate(vals) if v is ubranch][0]:
                    return True
            continue
        if isinstance(lca, (ast.ListComp, ast.SetComp, ast.GeneratorExp, ast.DictComp)):
            # a comprehension evaluates, per element, the conditions of its generators before the element expression
            # (and before the later generators): a walrus in a condition binds before those
            gens = list(lca.generators)
            if isinstance(wbranch, ast.comprehension) and any(w is x for i_ in wbranch.ifs for x in ast.walk(i_)):
                if not isinstance(ubranch, ast.comprehension):
                    return True
                if gens.index(ubranch) > gens.index(wbranch):
                    return True
            continue
        if isinstance(lca, ast.Lambda):
            continue
        # plain left-to-right evaluation of the children
        order = [id(c) for c in ast.iter_child_nodes(lca)]
        if isinstance(lca, (ast.Assign, ast.AnnAssign, ast.AugAssign)):
            # the value is evaluated before the targets
            val = getattr(lca, "value", None)
            order = ([id(val)] if val is not None else []) + [i for i in order if val is None or i != id(val)]
        if id(wbranch) in order and id(ubranch) in order and order.index(id(wbranch)) < order.index(id(ubranch)):
            return True
    return False


# ------------------------------------------------------------ single-caller context
def unique_caller(ctx, f):
    """(caller, call node) when the private function ``f`` has exactly one call site in the package, else None.
    A private function with one call site is a named piece of its caller: its parameters *are* the caller's arguments."""
    if not f.name.startswith("_") or f.name.startswith("__") or isinstance(f.node, ast.Lambda):
        return None
    sites = ctx.cg.callers(f)
    if len(sites) != 1 or sites[0][0] is f:
        return None
    return sites[0]


def contextual(ctx, f, t, depth: int = 0, stop=None):
    """``t`` (a term built in ``f``) with the parameters of ``f`` replaced by the caller's argument values while
    ``f`` is a private function with a single call site (transitively, three levels): the value as the caller sees it."""
    from .callgraph import _is_bound_call, bind_args
    from .terms import _subst

    cur_f, cur_t = f, t
    for _ in range(3 - depth):
        if stop is not None and cur_f is stop:
            break
        uc = unique_caller(ctx, cur_f)
        if uc is None:
            break
        caller, call = uc
        ct = ctx.X.at(caller, call)
        if ct[0] != "call":
            break
        bound = bind_args(cur_f, ct, bound=_is_bound_call(ct, cur_f))
        mapping = {("param", cur_f.qualname, p_): a_ for p_, a_ in bound.items() if a_ is not None}
        if not mapping:
            break
        cur_t = _subst(cur_t, mapping)
        cur_f = caller
    return cur_t, cur_f


def enclosing_ifs_ctx(ctx, f, node):
    """(function, If statement) for the `if`s enclosing ``node`` in ``f`` and, through single call sites, in its callers."""
    from .model import parent

    cur_f, cur_n = f, node
    for _ in range(4):
        cur = parent(cur_n)
        while cur is not None and cur is not cur_f.node:
            if isinstance(cur, ast.If):
                yield cur_f, cur
            cur = parent(cur)
        uc = unique_caller(ctx, cur_f)
        if uc is None:
            return
        cur_f, cur_n = uc


def context_chain(ctx, f, t):
    """(function, term) level by level: ``t`` in ``f``, then as the single caller of ``f`` sees it, and so on (see contextual)."""
    from .callgraph import _is_bound_call, bind_args
    from .terms import _subst

    cur_f, cur_t = f, t
    yield cur_f, cur_t
    for _ in range(3):
        uc = unique_caller(ctx, cur_f)
        if uc is None:
            return
        caller, call = uc
        ct = ctx.X.at(caller, call)
        if ct[0] != "call":
            return
        bound = bind_args(cur_f, ct, bound=_is_bound_call(ct, cur_f))
        mapping = {("param", cur_f.qualname, p_): a_ for p_, a_ in bound.items() if a_ is not None}
        if not mapping:
            return
        cur_t = _subst(cur_t, mapping)
        cur_f = caller
        yield cur_f, cur_t


# ------------------------------------------------------------ values by calling context
def _arg_node(ctx, pf, call: ast.Call, pname: str):
    """AST node of the argument bound to parameter ``pname`` of ``pf`` at ``call`` (None: left at its default / unknown)."""
    if isinstance(pf.node, ast.Lambda):
        return None
    a = pf.node.args
    names = [x.arg for x in a.posonlyargs + a.args]
    if pf.cls is not None and names and not pf.is_static and len(call.args) + len(call.keywords) < len(names) + len(a.kwonlyargs) + 1:
        # a bound call (`self.m(...)`, or through a local holding the bound method): `self` is not among the arguments
        if not (len(call.args) == len(names)):
            names = names[1:]
    if any(isinstance(x, ast.Starred) for x in call.args):
        return None
    if pname in names and names.index(pname) < len(call.args):
        return call.args[names.index(pname)]
    for k in call.keywords:
        if k.arg == pname:
            return k.value
    return None


def _pc_literals(ctx, f, stmt):
    out = []
    for t, pol in path_condition(ctx, f, stmt):
        g = bool_nnf(t if pol else ("unary", "not", t))
        for it in (g[1] if g[0] == "and" else [g]):
            if it[0] == "lit":
                out.append(norm_cond(it[1]) if it[2] else (lambda ap: (ap[0], not ap[1]))(norm_cond(it[1])))
    return tuple(out)


def context_cases(ctx, f, expr: ast.AST, depth: int = 0):
    """[(conditions, leaf)] for the value of ``expr`` like gated_values, but a leaf that is a parameter (of ``f`` or of
    an enclosing function), or a component of a tuple parameter, is followed to the argument at every call site,
    together with the path condition of that call site: `g(1 if c else n)` and `if c: g(1) else: g(n)` give the same
    cases for the parameter of g."""
    out = []
    for conds, leaf in gated_values(ctx, f, expr):
        out.extend(term_cases(ctx, tuple(conds), leaf, depth))
    return _feasible(out)


def term_cases(ctx, conds: tuple, leaf, depth: int = 0):
    """The calling-context cases of one leaf term (see context_cases)."""
    from .model import parent

    def expand_param(pterm):
        pf = ctx.repo.funcs.get(pterm[1])
        res_ = []
        for caller, call in (ctx.cg.callers(pf) if pf is not None else []):
            argn = _arg_node(ctx, pf, call, pterm[2])
            if argn is None:
                continue
            st = call
            while parent(st) is not None and not isinstance(st, ast.stmt):
                st = parent(st)
            pc = _pc_literals(ctx, caller, st) + tuple(_enclosing_conds(ctx, caller, call))
            for c2, l2 in context_cases(ctx, caller, argn, depth + 1):
                res_.append((pc + tuple(c2), l2))
        return res_

    def component(t, i):
        if t[0] in ("tuple", "list") and -len(t[1]) <= i < len(t[1]):
            return t[1][i]
        return ("item", t, i)

    if depth < 4:
        if leaf[0] == "param":
            ex = expand_param(leaf)
            if ex:
                return [(conds + c2, l2) for c2, l2 in ex]
        # a component of a tuple parameter: `a, b = shape` / `shape[0]`
        if leaf[0] == "item" and leaf[1][0] == "param" and isinstance(leaf[2], int):
            ex = expand_param(leaf[1])
            if ex:
                out = []
                for c2, l2 in ex:
                    out.extend(term_cases(ctx, conds + c2, component(l2, leaf[2]), depth + 1))
                return out
    return [(conds, leaf)]


def subst_params(t, mapping: dict):
    """``t`` with parameter terms replaced according to ``mapping`` (plain structural replacement)."""
    if not mapping or not isinstance(t, tuple):
        return t
    if t and t[0] == "param" and t in mapping:
        return mapping[t]
    return tuple(subst_params(x, mapping) for x in t)


def framed_closure(ctx, f, t, depth: int = 3, with_frame: bool = False):
    """Subterms of ``t`` (a value in ``f``), following loop links, and looking into the returned
    values of package helpers that could not be inlined as values (they contain loops): the
    subterms found there are expressed in the caller's frame - the helper's parameters are replaced
    by the arguments of the call - so that `f(x)` and its body written out in place give the same
    terms whether or not the statements were given a name."""
    X = ctx.X
    stack = [(t, {}, f, depth)]
    done = set()
    while stack:
        cur, mp, fn, d = stack.pop()
        for s_ in X.closure(cur):
            s2 = subst_params(s_, mp)
            yield (s2, mp) if with_frame else s2
            if s_[0] != "call" or d <= 0 or any(a[0] == "star" for a in s_[2]) or any(n == "**" for n, _ in s_[3]):
                continue
            g, bound_self = X._inline_target(s_[1], fn)
            if g is None or g is fn or isinstance(g.node, ast.Lambda):
                continue
            pos = list(g.positional)
            mapping = {}
            if bound_self is not None and not g.is_static:
                if not pos:
                    continue
                mapping[("param", g.qualname, pos[0])] = subst_params(bound_self, mp)
                pos = pos[1:]
            elif g.cls is not None and not g.is_static:
                continue
            if len(s_[2]) > len(pos):
                continue
            for p, a in zip(pos, s_[2]):
                mapping[("param", g.qualname, p)] = subst_params(a, mp)
            for n, v in s_[3]:
                mapping[("param", g.qualname, n)] = subst_params(v, mp)
            key = (g.qualname, tuple(sorted(mapping.items(), key=repr)))
            if key in done:
                continue
            done.add(key)
            stack.append((X.force_inline(X.return_term(g), g), mapping, g, d - 1))
