"""E3b - symbolic terms: every expression expands, through reaching
definitions, into a hashable tuple tree.  See DESIGN.md section 3 (E3).

Term forms (first element is the tag):

  const v | param func name | global qual | builtin name | attr base name
  call fn args kwargs | binop op l r | unary op x | cmp op l r
  bool op items | sub base index | slice lo hi step | ifexp c a b
  tuple items | list items | set items | dict pairs | phi alts
  update base index value | setattr base name value | aug op base value
  mut base method call | iter iterable loopid | enumidx iterable loopid
  item term i | rec var line | comp kind elt gens | compvar name iter path
  func qual | unbound var | enter ctx | exc cls | star x | fstr parts
  unknown text | deep
"""

from __future__ import annotations

import ast
import builtins
from typing import Callable, Iterator

from .cfg import Node, cfg_of
from .dataflow import DataFlow, Def, dataflow_of, comp_bound_names
from .model import Func, Repo, dotted, parent

Term = tuple

_BINOP = {
    ast.Add: "+", ast.Sub: "-", ast.Mult: "*", ast.Div: "/", ast.FloorDiv: "//",
    ast.Mod: "%", ast.Pow: "**", ast.MatMult: "@", ast.BitAnd: "&", ast.BitOr: "|",
    ast.BitXor: "^", ast.LShift: "<<", ast.RShift: ">>",
}
_UNARY = {ast.USub: "-", ast.UAdd: "+", ast.Invert: "~", ast.Not: "not"}
_CMP = {
    ast.Eq: "==", ast.NotEq: "!=", ast.Lt: "<", ast.LtE: "<=", ast.Gt: ">",
    ast.GtE: ">=", ast.Is: "is", ast.IsNot: "is not", ast.In: "in", ast.NotIn: "not in",
}

MAX_DEPTH = 60
_TAGS = {
    "const", "param", "global", "builtin", "attr", "call", "binop", "unary", "cmp", "bool", "sub", "slice", "ifexp", "tuple", "list", "set",
    "dict", "phi", "update", "setattr", "aug", "mut", "iter", "enumidx", "item", "rec", "comp", "compvar", "func", "unbound", "enter", "exc",
    "star", "fstr", "unknown", "deep", "root",
}
#: helpers larger than this are analysis units of their own (never inlined)
INLINE_MAX_STMTS = 6
INLINE_MAX_NODES = 100
NONE = ("const", None)


def phi(alts) -> Term:
    flat: list[Term] = []
    for a in alts:
        if a[0] == "phi":
            flat.extend(a[1])
        else:
            flat.append(a)
    uniq = sorted(set(flat), key=repr)
    if len(uniq) == 1:
        return uniq[0]
    return ("phi", tuple(uniq))


class Expander:
    def __init__(self, repo: Repo) -> None:
        self.repo = repo
        self._memo: dict[tuple[str, int], Term] = {}
        self._active: set[tuple[str, int]] = set()
        #: helpers are transparent: a call of a private, side-effect free package
        #: function (or self-method) is replaced by its guarded return term
        self.auto_inline = True
        #: qualnames that stay opaque (rules anchor on the call itself)
        self.opaque: set[str] = set()
        self._inl_ok: dict = {}
        self._top: ast.AST | None = None

    # ------------------------------------------------------------- helpers
    def df(self, func: Func) -> DataFlow:
        return dataflow_of(self.repo, func)

    def node_of(self, func: Func, e: ast.AST) -> Node | None:
        nodes = cfg_of(self.repo, func).node_containing(e)
        return nodes[0] if nodes else None

    # ---------------------------------------------------------------- entry
    def value_at(self, func: Func, e: ast.AST, env: dict | None = None) -> Term:
        """Like ``at`` but a call of a transparent helper at the top is replaced by its value."""
        return self.at(func, e, env, keep_call=False)

    def at(self, func: Func, e: ast.AST, env: dict | None = None, keep_call: bool = True) -> Term:
        """Term of expression ``e`` evaluated where it stands in ``func``."""
        node = self.node_of(func, e)
        if env is None:
            env = self._comp_env(func, e, node)
        # the expression asked for is never replaced by its callee's value (the
        # caller wants this call); calls nested in it are
        prev, self._top = self._top, (e if keep_call else None)
        try:
            return self.expr(e, func, node, env, 0)
        finally:
            self._top = prev

    def _comp_env(self, func: Func, e: ast.AST, node: Node | None) -> dict:
        """Bindings of the comprehension variables in scope at ``e``."""
        comps = []
        cur = parent(e)
        child = e
        in_iter = False
        while cur is not None and cur is not func.node:
            if isinstance(cur, (ast.ListComp, ast.SetComp, ast.GeneratorExp, ast.DictComp)):
                # which generators are in scope for `child`
                gens = cur.generators
                if child in gens:
                    k = gens.index(child)
                    # inside generator k: its iterable sees generators < k, its conditions see <= k
                    gens = gens[:k] if in_iter else gens[: k + 1]
                comps.append((cur, gens, child))
            if isinstance(cur, ast.comprehension):
                in_iter = child is cur.iter
            child, cur = cur, parent(cur)
        env: dict = {}
        from .dataflow import _targets

        for comp, gens, child in reversed(comps):
            for g in gens:
                if child is g.iter:
                    break
                it = self.expr(g.iter, func, node, env, 1)
                for leaf, path in _targets(g.target):
                    if isinstance(leaf, ast.Name):
                        env[leaf.id] = _iter_component(it, path, ("comp", comp.lineno, comp.col_offset))
        return env

    def namedtuples(self) -> dict:
        """{class qualname: field names} of the NamedTuple classes of the package."""
        tab = getattr(self, "_namedtuples", None)
        if tab is None:
            tab = {q: list(c.fields) for q, c in self.repo.classes.items() if any(b.split(".")[-1] == "NamedTuple" for b in c.base_names)}
            self._namedtuples = tab
        return tab

    def _nt_component(self, base: Term, attr: str):
        """`<value>.field` where the value is a NamedTuple of the package: the component (as for `a, b, c = value`)."""
        cands = [(q, names) for q, names in self.namedtuples().items() if attr in names]
        if len(cands) != 1:
            return None
        names = cands[0][1]
        i = names.index(attr)

        def comp(t):
            if t[0] == "tuple" and len(t[1]) == len(names):
                return t[1][i]
            if t[0] == "phi":
                parts = [comp(a) for a in t[1]]
                return phi(parts) if all(p is not None for p in parts) else None
            if t[0] == "ifexp":
                a, b = comp(t[2]), comp(t[3])
                return ("ifexp", t[1], a, b) if a is not None and b is not None else None
            if t[0] == "call" and t[1][0] in ("attr", "global") and not (t[1][0] == "global" and not t[1][1].startswith(self.repo.package if hasattr(self.repo, "package") else "")):
                return ("item", t, i)
            return None

        return comp(base)

    def var_at(self, func: Func, name: str, node: Node, out: bool = False) -> Term:
        df = self.df(func)
        defs = df.reaching_out(node, name) if out else df.reaching(node, name)
        return self._defs_term(func, name, defs, 0)

    # ----------------------------------------------------------- name reads
    def _name(self, n: ast.Name, func: Func, node: Node | None, env: dict, depth: int) -> Term:
        name = n.id
        if name in env:
            return env[name]
        df = self.df(func)
        if name in df.locals:
            # bound by an assignment expression evaluated earlier inside the same statement / test
            if node is not None and node.ast is not None and isinstance(n.ctx, ast.Load):
                from .util import walrus_binds_before

                root_ = node.ast.iter if node.kind == "iter" else (node.ast.context_expr if node.kind == "with" else node.ast)
                if root_ is not None and walrus_binds_before(root_, n):
                    ws = [w for w in ast.walk(root_) if isinstance(w, ast.NamedExpr) and isinstance(w.target, ast.Name) and w.target.id == name]
                    if len(ws) == 1 and depth < 40:
                        return self.expr(ws[0].value, func, node, env, depth + 1)
            if node is not None and node.kind == "case" and isinstance(n.ctx, ast.Load):
                # a capture of the case pattern read in the guard of the same case
                same = [d for d in df.node_defs.get(node, []) if d.var == name and d.kind == "match"]
                if same and node.ast.guard is not None and any(x is n for x in ast.walk(node.ast.guard)):
                    return self._def_term(func, same[-1], depth)
            if node is None:
                defs = frozenset(df.defs_of(name))
            else:
                defs = df.reaching(node, name)
                if not defs:
                    defs = frozenset(df.defs_of(name))
            return self._defs_term(func, name, defs, depth)
        # enclosing function scopes (flow-insensitive)
        outer = func.outer
        while outer is not None:
            odf = self.df(outer)
            if name in odf.locals:
                defs = frozenset(odf.defs_of(name)) | (
                    frozenset([odf.param_defs[name]]) if name in odf.param_defs else frozenset()
                )
                return self._defs_term(outer, name, defs, depth)
            outer = outer.outer
        return self.global_name(func, name)

    def const_global(self, q: str) -> Term:
        """A module-level numeric constant is its value (`_ATOL = 1e-15` ... `atol=_ATOL`)."""
        modname, _, cname = q.rpartition(".")
        m = self.repo.modules.get(modname)
        if m is not None and cname in m.constants:
            e = m.constants[cname]
            if isinstance(e, ast.UnaryOp) and isinstance(e.op, ast.USub) and isinstance(e.operand, ast.Constant):
                v = e.operand.value
                if isinstance(v, (int, float)) and not isinstance(v, bool):
                    return ("const", -v)
            if isinstance(e, ast.Constant) and isinstance(e.value, (int, float)) and not isinstance(e.value, bool):
                return ("const", e.value)
        return ("global", q)

    def global_name(self, func: Func, name: str) -> Term:
        q = self.repo.resolve_in_module(func.module, name)
        if q is not None:
            return self.const_global(q)
        if hasattr(builtins, name):
            return ("builtin", name)
        return ("unknown", name)

    def _is_identity_def(self, func: Func, d: Def) -> bool:
        """A 'self may have been mutated by self.m(...)' definition whose callee assigns no attribute."""
        if d.kind != "mutcall" or not str(d.extra).startswith("call:") or func.cls is None or d.node is None:
            return False
        mname = str(d.extra)[5:]
        is_method = self.repo.find_method(func.cls, mname) is not None or any(mname in sc.methods for sc in self.repo.subclasses(func.cls.qualname))
        return is_method and self._writes(func.cls.qualname, mname, set()) == set()

    def _effective_defs(self, func: Func, defs):
        if not any(d.kind == "mutcall" for d in defs):
            return defs
        df = self.df(func)
        out, seen, stack = set(), set(), list(defs)
        while stack:
            d = stack.pop()
            if d.id in seen:
                continue
            seen.add(d.id)
            if self._is_identity_def(func, d):
                same = [x for x in df.node_defs.get(d.node, []) if x.var == d.var and x.id < d.id]
                stack.extend([same[-1]] if same else list(df.reaching(d.node, d.var)))
            else:
                out.add(d)
        return frozenset(out)

    def _defs_term(self, func: Func, name: str, defs, depth: int) -> Term:
        defs = self._effective_defs(func, defs)
        if not defs:
            return ("unbound", name)
        return phi(self._def_term(func, d, depth) for d in sorted(defs, key=lambda d: d.id))

    def _def_term(self, func: Func, d: Def, depth: int) -> Term:
        key = (func.qualname, d.id)
        if key in self._memo:
            return self._memo[key]
        if key in self._active:
            # cyclic reference (loop-carried value): a link to the definition,
            # resolvable with ``deref`` / ``closure``
            return ("rec", d.var, d.lineno, func.qualname, d.id)
        if depth > MAX_DEPTH:
            return ("deep",)
        self._active.add(key)
        try:
            t = self._def_term_inner(func, d, depth + 1)
        finally:
            self._active.discard(key)
        self._memo[key] = t
        return t

    def deref(self, rec: Term) -> Term:
        """Term of the definition a ``rec`` link points to."""
        assert rec[0] == "rec"
        if len(rec) < 5:
            return ("unknown", "rec")
        f = self.repo.funcs[rec[3]]
        d = self.df(f).defs[rec[4]]
        return self._def_term(f, d, 0)

    def closure(self, t: Term):
        """All subterms of ``t``, following ``rec`` links (each once)."""
        seen: set = set()
        stack = [t]
        while stack:
            x = stack.pop()
            for s in subterms(x):
                yield s
                if s[0] == "rec" and len(s) >= 5 and (s[3], s[4]) not in seen:
                    seen.add((s[3], s[4]))
                    stack.append(self.deref(s))

    def _prev(self, func: Func, d: Def, depth: int) -> Term:
        """Value of d.var just before d's node."""
        assert d.node is not None
        df = self.df(func)
        defs = df.reaching(d.node, d.var)
        # earlier defs of the same var inside the same node
        same = [x for x in df.node_defs.get(d.node, []) if x.var == d.var and x.id < d.id]
        if same:
            return self._def_term(func, same[-1], depth)
        return self._defs_term(func, d.var, defs, depth)

    def _def_term_inner(self, func: Func, d: Def, depth: int) -> Term:
        k = d.kind
        node = d.node
        if k == "param":
            return ("param", func.qualname, d.var)
        if k == "unbound":
            return ("unbound", d.var)
        if k == "del":
            return ("unbound", d.var)
        if k == "assign":
            v = self.expr(d.value, func, node, {}, depth)
            return _project(v, d.path)
        if k == "aug":
            prev = self._prev(func, d, depth)
            val = self.expr(d.value, func, node, {}, depth)
            return ("aug", _BINOP.get(type(d.extra), "?"), prev, val)
        if k == "substore":
            prev = self._prev(func, d, depth)
            tgt = d.target
            assert isinstance(tgt, ast.Subscript)
            val = _project(self.expr(d.value, func, node, {}, depth), d.path) if d.value is not None else ("unknown", "?")
            if d.extra == "aug":
                val = ("aug", "?", ("sub", prev, self._index(tgt.slice, func, node, {}, depth)), val)
            # nested stores a.b[i] = v keep the access path
            pathterm = self._store_path(tgt.value, func, node, depth)
            return ("update", prev, pathterm, self._index(tgt.slice, func, node, {}, depth), val)
        if k == "attrstore":
            prev = self._prev(func, d, depth)
            tgt = d.target
            assert isinstance(tgt, ast.Attribute)
            val = _project(self.expr(d.value, func, node, {}, depth), d.path) if d.value is not None else ("unknown", "?")
            pathterm = self._store_path(tgt.value, func, node, depth)
            return ("setattr", prev, pathterm, tgt.attr, val)
        if k == "mutcall":
            prev = self._prev(func, d, depth)
            if str(d.extra).startswith("call:"):
                # a method call on self: a barrier for attribute reads only; its
                # arguments are not part of the value of ``self``
                if func.cls is not None:
                    mname = str(d.extra)[5:]
                    is_method = self.repo.find_method(func.cls, mname) is not None or any(mname in sc.methods for sc in self.repo.subclasses(func.cls.qualname))
                    if is_method and self._writes(func.cls.qualname, mname, set()) == set():
                        return prev  # the callee (and what it calls on self) assigns no attribute: self is unchanged
                return ("mut", prev, str(d.extra), ("unknown", "selfcall"))
            call = self.expr(d.value, func, node, {}, depth) if d.value is not None else ("unknown", "del")
            return ("mut", prev, str(d.extra), call)
        if k == "for":
            forstmt = d.extra
            assert isinstance(forstmt, (ast.For, ast.AsyncFor))
            it = self.expr(forstmt.iter, func, node, {}, depth)
            return _iter_component(it, d.path, forstmt.lineno)
        if k == "with":
            return _project(("enter", self.expr(d.value, func, node, {}, depth)), d.path)
        if k == "except":
            return ("exc", ast.unparse(d.value) if d.value is not None else "BaseException")
        if k == "def":
            tgt = d.target
            f2 = getattr(tgt, "_func", None)
            if f2 is not None:
                return ("func", f2.qualname)
            return ("unknown", f"class {getattr(tgt, 'name', '?')}")
        if k == "import":
            al = d.extra
            return ("global", func.module.imports.get(d.var, getattr(al, "name", d.var)))
        if k == "match":
            # a capture of a `case` pattern: the component of the subject it stands for
            tgt = d.target
            case = getattr(node, "ast", None)
            mt = parent(case) if case is not None else None
            if isinstance(mt, ast.Match) and isinstance(tgt, ast.MatchAs) and tgt.pattern is None and isinstance(case, ast.match_case):
                def locate(p, cur):
                    if p is tgt:
                        return cur
                    if isinstance(p, ast.MatchAs) and p.pattern is not None:
                        return locate(p.pattern, cur)
                    if isinstance(p, ast.MatchSequence) and not any(isinstance(x, ast.MatchStar) for x in p.patterns):
                        for i, x in enumerate(p.patterns):
                            r = locate(x, _project(cur, (i,)))
                            if r is not None:
                                return r
                    if isinstance(p, ast.MatchClass):
                        for a_, x in zip(p.kwd_attrs, p.kwd_patterns):
                            r = locate(x, ("attr", cur, a_))
                            if r is not None:
                                return r
                    if isinstance(p, ast.MatchOr):
                        for x in p.patterns:
                            r = locate(x, cur)
                            if r is not None:
                                return r
                    return None

                # the subject is evaluated where the match statement starts
                subj_nodes = self.df(func).cfg.node_containing(mt.subject)
                subj = self.expr(mt.subject, func, subj_nodes[0] if subj_nodes else node, {}, depth)
                r = locate(case.pattern, subj)
                if r is not None:
                    return r
            return ("unknown", "match-capture")
        return ("unknown", k)

    def _store_path(self, base: ast.AST, func: Func, node: Node | None, depth: int) -> Term:
        """Access path between the root variable and the stored slot, e.g. for
        ``a.b[i] = v`` the path of the Subscript store is ('attr', ROOT, 'b')."""
        if isinstance(base, ast.Name):
            return ("root",)
        if isinstance(base, ast.Attribute):
            return ("attr", self._store_path(base.value, func, node, depth), base.attr)
        if isinstance(base, ast.Subscript):
            return ("sub", self._store_path(base.value, func, node, depth), self._index(base.slice, func, node, {}, depth))
        return ("unknown", "path")

    # ---------------------------------------------------------- expressions
    def _index(self, s: ast.AST, func: Func, node: Node | None, env: dict, depth: int) -> Term:
        if isinstance(s, ast.Slice):
            return (
                "slice",
                self.expr(s.lower, func, node, env, depth) if s.lower else NONE,
                self.expr(s.upper, func, node, env, depth) if s.upper else NONE,
                self.expr(s.step, func, node, env, depth) if s.step else NONE,
            )
        if isinstance(s, ast.Tuple):
            return ("tuple", tuple(self._index(e, func, node, env, depth) for e in s.elts))
        return self.expr(s, func, node, env, depth)

    def expr(self, e: ast.AST | None, func: Func, node: Node | None, env: dict, depth: int) -> Term:
        if e is None:
            return NONE
        if depth > MAX_DEPTH:
            return ("deep",)
        d = depth + 1
        X = lambda x: self.expr(x, func, node, env, d)  # noqa: E731
        if isinstance(e, ast.Constant):
            return ("const", e.value)
        if isinstance(e, ast.Name):
            return self._name(e, func, node, env, d)
        if isinstance(e, ast.Attribute):
            dn = dotted(e)
            if dn is not None:
                head = dn.split(".")[0]
                df = self.df(func)
                is_local = head in env or head in df.locals
                o = func.outer
                while not is_local and o is not None:
                    is_local = head in self.df(o).locals
                    o = o.outer
                if not is_local:
                    q = self.repo.resolve_in_module(func.module, dn)
                    if q is not None:
                        return self.const_global(q)
            bt_ = X(e.value)
            nt = self._nt_component(bt_, e.attr)
            if nt is not None:
                return nt
            return mk_attr(bt_, e.attr, lambda m, a, func=func: self.method_may_write(func, m, a))
        if isinstance(e, ast.Call):
            fn = X(e.func)
            args = []
            for a in e.args:
                if isinstance(a, ast.Starred):
                    args.append(("star", X(a.value)))
                else:
                    args.append(X(a))
            kws = []
            for kw in e.keywords:
                kws.append((kw.arg if kw.arg is not None else "**", X(kw.value)))
            ct = ("call", fn, tuple(args), tuple(sorted(kws, key=lambda p: p[0])))
            # constructing a NamedTuple of the package is building a tuple (fields in declaration order)
            if fn[0] == "global" and fn[1] in self.namedtuples():
                names = self.namedtuples()[fn[1]]
                given = dict(zip(names, args))
                given.update({k: v for k, v in kws if k != "**"})
                if len(args) <= len(names) and all(n_ in given for n_ in names) and not any(a_[0] == "star" for a_ in args):
                    return ("tuple", tuple(given[n_] for n_ in names))
            if self.auto_inline and e is not self._top:
                it = self._inline_call(ct, func)
                if it is not None:
                    return it
            return ct
        if isinstance(e, ast.BinOp):
            return ("binop", _BINOP.get(type(e.op), "?"), X(e.left), X(e.right))
        if isinstance(e, ast.UnaryOp):
            return ("unary", _UNARY.get(type(e.op), "?"), X(e.operand))
        if isinstance(e, ast.BoolOp):
            return ("bool", "and" if isinstance(e.op, ast.And) else "or", tuple(X(v) for v in e.values))
        if isinstance(e, ast.Compare):
            parts = []
            left = X(e.left)
            for op, right in zip(e.ops, e.comparators):
                r = X(right)
                parts.append(("cmp", _CMP.get(type(op), "?"), left, r))
                left = r
            return parts[0] if len(parts) == 1 else ("bool", "and", tuple(parts))
        if isinstance(e, ast.Subscript):
            return ("sub", X(e.value), self._index(e.slice, func, node, env, d))
        if isinstance(e, ast.IfExp):
            return ("ifexp", X(e.test), X(e.body), X(e.orelse))
        if isinstance(e, ast.Tuple):
            return ("tuple", tuple(X(x) for x in e.elts))
        if isinstance(e, ast.List):
            return ("list", tuple(X(x) for x in e.elts))
        if isinstance(e, ast.Set):
            return ("set", tuple(X(x) for x in e.elts))
        if isinstance(e, ast.Dict):
            return (
                "dict",
                tuple((X(k) if k is not None else ("star", NONE), X(v)) for k, v in zip(e.keys, e.values)),
            )
        if isinstance(e, ast.Starred):
            return ("star", X(e.value))
        if isinstance(e, ast.NamedExpr):
            return X(e.value)
        if isinstance(e, (ast.ListComp, ast.SetComp, ast.GeneratorExp, ast.DictComp)):
            env2 = dict(env)
            gens = []
            for g in e.generators:
                it = self.expr(g.iter, func, node, env2, d)
                names = []
                from .dataflow import _targets

                for leaf, path in _targets(g.target):
                    if isinstance(leaf, ast.Name):
                        env2[leaf.id] = _iter_component(it, path, ("comp", e.lineno, e.col_offset))
                        names.append(leaf.id)
                conds = tuple(self.expr(c, func, node, env2, d) for c in g.ifs)
                gens.append((tuple(names), it, conds))
            if isinstance(e, ast.DictComp):
                elt = ("tuple", (self.expr(e.key, func, node, env2, d), self.expr(e.value, func, node, env2, d)))
                kind = "dict"
            else:
                elt = self.expr(e.elt, func, node, env2, d)
                kind = {ast.ListComp: "list", ast.SetComp: "set", ast.GeneratorExp: "gen"}[type(e)]
            return ("comp", kind, elt, tuple(gens))
        if isinstance(e, ast.Lambda):
            f2 = getattr(e, "_func", None)
            return ("func", f2.qualname) if f2 is not None else ("unknown", "lambda")
        if isinstance(e, ast.JoinedStr):
            return ("fstr", tuple(X(v.value) for v in e.values if isinstance(v, ast.FormattedValue)))
        if isinstance(e, ast.FormattedValue):
            return X(e.value)
        if isinstance(e, (ast.Yield, ast.Await, ast.YieldFrom)):
            return ("unknown", type(e).__name__.lower())
        if isinstance(e, ast.Slice):
            return self._index(e, func, node, env, d)
        return ("unknown", type(e).__name__)

    # ------------------------------------------------- attribute write sets
    def method_may_write(self, func: Func, method: str, attr: str) -> bool:
        """May calling ``self.<method>()`` from ``func`` rebind ``self.<attr>``?"""
        if func.cls is None:
            return True
        if self.repo.find_method(func.cls, method) is None and not any(method in sc.methods for sc in self.repo.subclasses(func.cls.qualname)):
            return False  # a stored callable (field), not a method: it has no access to self
        ws = self._writes(func.cls.qualname, method, set())
        return ws is None or attr in ws

    def _writes(self, clsq: str, method: str, active: set):
        key = (clsq, method)
        cache = self.__dict__.setdefault("_writes_cache", {})
        if key in cache:
            return cache[key]
        if key in active:
            return set()
        active.add(key)
        c = self.repo.classes.get(clsq)
        targets = []
        if c is not None:
            m = self.repo.find_method(c, method)
            if m is not None:
                targets.append(m)
            for sc in self.repo.subclasses(clsq):
                if method in sc.methods:
                    targets.append(sc.methods[method])
        if not targets:
            active.discard(key)
            cache[key] = None  # unknown callee: may write anything
            return None
        out: set | None = set()
        for m in targets:
            if not m.positional or isinstance(m.node, ast.Lambda):
                continue
            selfname = m.positional[0]
            for n in ast.walk(m.node):
                tgts = []
                if isinstance(n, ast.Assign):
                    tgts = n.targets
                elif isinstance(n, (ast.AugAssign, ast.AnnAssign)):
                    tgts = [n.target]
                for t in tgts:
                    for leaf in ast.walk(t):
                        if isinstance(leaf, ast.Attribute) and isinstance(leaf.value, ast.Name) and leaf.value.id == selfname and isinstance(leaf.ctx, ast.Store):
                            out.add(leaf.attr)
                if isinstance(n, ast.Call) and isinstance(n.func, ast.Attribute) and isinstance(n.func.value, ast.Name) and n.func.value.id == selfname:
                    sub = self._writes(m.cls.qualname if m.cls else clsq, n.func.attr, active)
                    if sub is None:
                        # calling a stored callable (field), not a method: it cannot rebind self's attributes
                        if m.cls is not None and self.repo.find_method(m.cls, n.func.attr) is None:
                            continue
                        out = None
                        break
                    out |= sub
            if out is None:
                break
        active.discard(key)
        cache[key] = out
        return out

    # ------------------------------------------------------- auto inlining
    def _inline_target(self, fn: Term, caller: Func):
        """(callee, bound self term) for a call whose callee is a unique package function."""
        if fn[0] in ("global", "func") and fn[1] in self.repo.funcs:
            return self.repo.funcs[fn[1]], None
        if fn[0] == "attr":
            base = fn[1]
            while base[0] in ("mut", "setattr", "update"):
                base = base[1]
            if base[0] == "param":
                owner = self.repo.funcs.get(base[1])
                if owner is not None and owner.cls is not None and owner.positional and base[2] == owner.positional[0] and not owner.is_static:
                    m = self.repo.find_method(owner.cls, fn[2])
                    if m is not None and not m.is_property and not any(fn[2] in sc.methods for sc in self.repo.subclasses(owner.cls.qualname)):
                        return m, fn[1]
        return None, None

    def inlinable(self, f: Func, force: bool = False, effects: bool = False) -> bool:
        """A private helper without side effects on its arguments, its object or globals,
        no generator, not recursive, with a body of assignments / if / return only.
        ``force``: size, name and opacity do not matter (a rule asks for the value)."""
        q = (f.qualname, force, effects)
        if q in self._inl_ok:
            return self._inl_ok[q]
        ok = self._inlinable(f, force, effects)
        self._inl_ok[q] = ok
        return ok

    def _inlinable(self, f: Func, force: bool = False, effects: bool = False) -> bool:
        if isinstance(f.node, ast.Lambda):
            return False
        if effects:
            # only the returned value is wanted: side effects and raises of the callee are the
            # business of the rule that asks
            return not any(isinstance(n, (ast.Yield, ast.YieldFrom, ast.Await)) for n in ast.walk(f.node))
        if not force and (not f.name.startswith("_") or f.name.startswith("__") or f.qualname in self.opaque):
            return False
        if f.is_property or getattr(f.node, "decorator_list", None) and any(not (isinstance(d, ast.Name) and d.id in ("staticmethod", "classmethod")) for d in f.node.decorator_list):
            return False
        params = set(f.positional) | set(getattr(f, "kwonly", []) or [])
        from .dataflow import MUTATING_METHODS, walk_body

        def ok_stmts(body) -> bool:
            for st in body:
                if isinstance(st, ast.Expr) and isinstance(st.value, ast.Constant):
                    continue
                if isinstance(st, (ast.Return, ast.Pass, ast.Assert, ast.Raise)):
                    continue  # (a path that raises yields no value: callers see the returning paths)
                if isinstance(st, (ast.Assign, ast.AnnAssign, ast.AugAssign)):
                    tg = st.targets if isinstance(st, ast.Assign) else [st.target]
                    for t in tg:
                        for leaf in ast.walk(t):
                            if isinstance(leaf, (ast.Attribute, ast.Subscript)) and isinstance(leaf.ctx, ast.Store):
                                r = leaf
                                while isinstance(r, (ast.Attribute, ast.Subscript)):
                                    r = r.value
                                if not isinstance(r, ast.Name) or r.id in params:
                                    return False
                    if isinstance(st, ast.AugAssign) and isinstance(st.target, ast.Name) and st.target.id in params:
                        return False  # may mutate the caller's array in place
                    continue
                if isinstance(st, ast.If):
                    if not ok_stmts(st.body) or not ok_stmts(st.orelse):
                        return False
                    continue
                return False
            return True

        if not ok_stmts(f.node.body):
            return False
        body = [st for st in f.node.body if not (isinstance(st, ast.Expr) and isinstance(st.value, ast.Constant))]
        if not force and (len(body) > INLINE_MAX_STMTS or sum(1 for st in body for _ in ast.walk(st)) > INLINE_MAX_NODES):
            return False
        for n in walk_body(f.node.body):
            if isinstance(n, (ast.Yield, ast.YieldFrom, ast.Await, ast.Global, ast.Nonlocal, ast.Lambda, ast.FunctionDef)):
                return False
            if isinstance(n, ast.Call) and isinstance(n.func, ast.Attribute) and n.func.attr in MUTATING_METHODS:
                r = n.func.value
                while isinstance(r, (ast.Attribute, ast.Subscript)):
                    r = r.value
                if isinstance(r, ast.Name) and r.id in params:
                    return False
            if isinstance(n, ast.Call):
                for kw in n.keywords:
                    if kw.arg == "out":
                        # writing into a parameter is a side effect; a fresh array (`out=np.zeros_like(x)`) is not
                        r = kw.value
                        while isinstance(r, (ast.Attribute, ast.Subscript)):
                            r = r.value
                        if isinstance(r, ast.Name):
                            return False
        return True

    def guarded_return(self, f: Func) -> Term:
        """Return value of an ``inlinable`` function as a term: ifexp over the branch conditions."""
        key = (f.qualname, -2)
        if key in self._memo:
            return self._memo[key]
        if key in self._active:
            return ("rec", "<return>", f.lineno)
        self._active.add(key)
        try:
            cfg = cfg_of(self.repo, f)

            def node_for(st):
                ns = cfg.node_containing(st.value if isinstance(st, ast.Return) and st.value is not None else getattr(st, "test", st))
                return ns[0] if ns else None

            RAISES = ("raises",)

            def seq(body, cont) -> Term:
                """Value returned when ``body`` is executed and followed by ``cont()``."""
                for i, st in enumerate(body):
                    if isinstance(st, ast.Return):
                        return self.expr(st.value, f, node_for(st), {}, 0) if st.value is not None else NONE
                    if isinstance(st, ast.Raise):
                        return RAISES
                    if isinstance(st, ast.If):
                        rest_memo: list = []

                        def rest(i=i, body=body, cont=cont, rest_memo=rest_memo):
                            if not rest_memo:
                                rest_memo.append(seq(body[i + 1:], cont))
                            return rest_memo[0]

                        if not any(isinstance(x, (ast.Return, ast.Raise)) for b_ in (st.body, st.orelse) for s_ in b_ for x in ast.walk(s_)):
                            continue  # neither branch leaves the function: the value comes from what follows
                        a = seq(st.body, rest)
                        b = seq(st.orelse, rest)
                        # a branch that raises contributes no value
                        if a == RAISES:
                            return b
                        if b == RAISES:
                            return a
                        if a == b:
                            return a
                        return ("ifexp", self.expr(st.test, f, node_for(st), {}, 0), a, b)
                return cont()

            t = seq(f.node.body, lambda: NONE)
            if t == RAISES:
                t = NONE
        finally:
            self._active.discard(key)
        self._memo[key] = t
        return t

    def _inline_call(self, ct: Term, caller: Func, force: bool = False, effects: bool = False) -> Term | None:
        target, bound_self = self._inline_target(ct[1], caller)
        if target is None or target is caller or not self.inlinable(target, force, effects):
            return None
        if any(a[0] == "star" for a in ct[2]) or any(n == "**" for n, _ in ct[3]):
            return None
        rt = self.guarded_return(target)
        if _has_tag(rt, "rec") or _has_tag(rt, "deep"):
            return None
        pos = list(target.positional)
        mapping = {}
        if bound_self is not None and not target.is_static:
            if not pos:
                return None
            mapping[("param", target.qualname, pos[0])] = bound_self
            pos = pos[1:]
        elif bound_self is None and target.cls is not None and not target.is_static:
            return None
        if len(ct[2]) > len(pos):
            return None
        for p, a in zip(pos, ct[2]):
            mapping[("param", target.qualname, p)] = a
        for n, v in ct[3]:
            mapping[("param", target.qualname, n)] = v
        # constant defaults
        node = target.node
        if isinstance(node, (ast.FunctionDef, ast.AsyncFunctionDef)):
            allpos = node.args.posonlyargs + node.args.args
            for a, dflt in zip(allpos[len(allpos) - len(node.args.defaults):], node.args.defaults):
                if isinstance(dflt, ast.Constant):
                    mapping.setdefault(("param", target.qualname, a.arg), ("const", dflt.value))
            for a, dflt in zip(node.args.kwonlyargs, node.args.kw_defaults):
                if isinstance(dflt, ast.Constant):
                    mapping.setdefault(("param", target.qualname, a.arg), ("const", dflt.value))
        mw = lambda m, a, func=caller: self.method_may_write(func, m, a)  # noqa: E731
        sub = _subst_attr(rt, mapping, mw)
        if any(s_[0] == "param" and s_[1] == target.qualname for s_ in subterms(sub)):
            return None
        return sub

    # --------------------------------------------------------------- inlining
    def force_inline(self, t: Term, caller: Func, depth: int = 3, effects: bool = False) -> Term:
        """Replace every call of a side-effect free package function in ``t`` (whatever
        its size or name) by its guarded return value: rules that need the value of a
        helper that was too large for automatic inlining ask for it explicitly."""
        if depth <= 0 or not isinstance(t, tuple) or not t or not isinstance(t[0], str):
            return t
        if t[0] in ("const", "param", "global", "builtin", "func", "rec", "unknown", "unbound", "deep", "root", "exc"):
            return t
        t2 = tuple(self._force_inline_any(x, caller, depth, effects) for x in t)
        if t2[0] == "call":
            it = self._inline_call(t2, caller, force=True, effects=effects)
            if it is not None:
                return self.force_inline(it, caller, depth - 1, effects)
        if t2[0] == "item" and len(t2) == 3 and isinstance(t2[2], int) and isinstance(t2[1], tuple) and t2[1]:
            # `a, b = helper(...)` with the helper's returned tuple(s) in hand: the component (of every alternative)
            pr = _project_item(t2[1], t2[2])
            if pr is not None:
                return pr
        return t2

    def _force_inline_any(self, x, caller: Func, depth: int, effects: bool = False):
        if isinstance(x, tuple):
            if x and isinstance(x[0], str) and x[0] in _TAGS:
                return self.force_inline(x, caller, depth, effects)
            return tuple(self._force_inline_any(y, caller, depth, effects) for y in x)
        return x

    # ------------------------------------------------------ function values
    def return_term(self, func: Func) -> Term:
        key = (func.qualname, -1)
        if key in self._memo:
            return self._memo[key]
        if key in self._active:
            return ("rec", "<return>", func.lineno)
        self._active.add(key)
        try:
            cfg = cfg_of(self.repo, func)
            live = cfg.live_nodes()
            alts = []
            for n in cfg.nodes:
                if n in live and n.kind == "stmt" and isinstance(n.ast, ast.Return):
                    alts.append(self.expr(n.ast.value, func, n, {}, 0))
            # implicit ``return None`` when the exit has a non-return predecessor
            if any(lab != "return" for _, lab in cfg.exit.pred):
                alts.append(NONE)
            t = phi(alts) if alts else NONE
        finally:
            self._active.discard(key)
        self._memo[key] = t
        return t


def _project_item(t: Term, i: int):
    """component i of a value that is a tuple, or a conditional / alternative of tuples (None: not of that shape)"""
    if t[0] == "tuple":
        return t[1][i] if -len(t[1]) <= i < len(t[1]) else None
    if t[0] == "ifexp":
        a, b = _project_item(t[2], i), _project_item(t[3], i)
        if a is None or b is None:
            return None
        return a if a == b else ("ifexp", t[1], a, b)
    if t[0] == "phi":
        ps = [_project_item(x, i) for x in t[1]]
        if any(p is None for p in ps):
            return None
        return phi(ps)
    return None


_CONTENT_MUTATORS = {
    "append", "extend", "insert", "fill", "sort", "update", "setdefault", "setflags",
    "pop", "remove", "clear", "add", "resize", "put", "itemset", "discard", "reverse",
    "popitem", "out=", "del",
}


def mk_attr(base: Term, name: str, may_write=None) -> Term:
    """``base.name`` with flow-sensitive resolution of attribute stores made
    earlier in the same function (``self.x = v`` ... ``self.x``).  A method
    call on self is a barrier unless ``may_write(method, name)`` is False."""
    cur = base
    while True:
        k = cur[0]
        if k == "mut" and cur[2].startswith("call:") and may_write is not None and not may_write(cur[2][5:], name):
            cur = cur[1]
            continue
        if k == "setattr":
            if cur[2] == ("root",):
                if cur[3] == name:
                    return cur[4]
                cur = cur[1]
                continue
            cur = cur[1]  # store into a sub-object: attributes of the root unchanged
            continue
        if k == "update":
            cur = cur[1]
            continue
        if k == "mut" and cur[2] in _CONTENT_MUTATORS:
            cur = cur[1]
            continue
        if k == "phi":
            return phi(mk_attr(a, name, may_write) for a in cur[1])
        break
    return ("attr", cur, name)


def ifexp_to_phi(t):
    """Forget the conditions: every conditional expression becomes the merge of its two
    branches.  `v = a if c else b`, `if c: v = a else: v = b` and a helper with an early
    return then give the same term."""
    if not isinstance(t, tuple) or not t:
        return t
    if isinstance(t[0], str):
        if t[0] == "ifexp":
            return phi([ifexp_to_phi(t[2]), ifexp_to_phi(t[3])])
        if t[0] in ("const", "param", "global", "builtin", "func", "rec", "unknown", "unbound", "deep", "root", "exc"):
            return t
        if t[0] == "phi":
            return phi(ifexp_to_phi(a) for a in t[1])
    return tuple(ifexp_to_phi(x) for x in t)


def root_of(t: Term) -> Term:
    """Strip attribute/subscript/store wrappers down to the root value."""
    while t[0] in ("attr", "sub", "setattr", "update", "mut", "aug"):
        t = t[1] if t[0] != "aug" else t[2]
    return t


def _subst(t, mapping: dict):
    if not isinstance(t, tuple):
        return t
    if t in mapping:
        return mapping[t]
    return tuple(_subst(x, mapping) for x in t)


def _subst_attr(t, mapping: dict, may_write=None):
    """Substitution that re-resolves attribute reads on substituted bases."""
    if not isinstance(t, tuple):
        return t
    if t in mapping:
        return mapping[t]
    if t and t[0] == "attr" and len(t) == 3:
        b = _subst_attr(t[1], mapping, may_write)
        return mk_attr(b, t[2], may_write) if b is not t[1] and b != t[1] else t
    return tuple(_subst_attr(x, mapping, may_write) for x in t)


def _has_tag(t: Term, tag: str) -> bool:
    return any(s[0] == tag for s in subterms(t))


def _project(v: Term, path: tuple[int, ...]) -> Term:
    for i in path:
        if v[0] in ("tuple", "list") and -len(v[1]) <= i < len(v[1]) and not any(x[0] == "star" for x in v[1]):
            v = v[1][i]
        elif v[0] == "phi":
            v = phi(_project(a, (i,)) for a in v[1])
        elif v[0] == "ifexp":
            v = ("ifexp", v[1], _project(v[2], (i,)), _project(v[3], (i,)))
        else:
            v = ("item", v, i)
    return v


def _iter_component(it: Term, path: tuple[int, ...], loopid) -> Term:
    """Term of the loop variable at ``path`` for ``for <target> in <it>``."""
    fn = it[1] if it[0] == "call" else None
    if fn == ("builtin", "enumerate") and path:
        inner = it[2][0] if it[2] else ("unknown", "enumerate")
        if path[0] == 0:
            return ("enumidx", inner, loopid)
        return _iter_component(inner, path[1:], loopid)
    if fn == ("builtin", "zip") and path and 0 <= path[0] < len(it[2]):
        return _iter_component(it[2][path[0]], path[1:], loopid)
    if fn == ("global", "itertools.zip_longest") and path and 0 <= path[0] < len(it[2]):
        return _iter_component(it[2][path[0]], path[1:], loopid)
    if fn == ("builtin", "reversed") and it[2]:
        return _project(("iter", it, loopid), path)
    if it[0] == "comp" and it[1] in ("list", "gen", "set") and len(it[3]) >= 1:
        # `for a, b in [(x, y) for x, y in enumerate(L) if c]`: the loop variables are the components of the
        # element, i.e. values of the inner iteration (the filter `c` is a path condition, see util.path_condition)
        inner_ids = comp_loop_ids(it)
        if len(inner_ids) == 1:
            return _project(_retag(it[2], next(iter(inner_ids)), loopid), path)
    return _project(("iter", it, loopid), path)


def comp_loop_ids(comp: Term) -> set:
    """Loop ids of the generators of a comprehension term (found on the iter/enumidx terms of its variables)."""
    ids = set()
    stack = [comp[2]] + [c for g in comp[3] for c in g[2]]
    while stack:
        x = stack.pop()
        if not isinstance(x, tuple) or not x:
            continue
        if x[0] in ("iter", "enumidx") and len(x) == 3 and isinstance(x[2], tuple) and x[2] and x[2][0] == "comp":
            ids.add(x[2])
        stack.extend(y for y in x if isinstance(y, tuple))
    return ids


def _retag(t, old, new):
    if not isinstance(t, tuple):
        return t
    if t == old:
        return new
    return tuple(_retag(x, old, new) for x in t)


# ------------------------------------------------------------------ queries
def children(t: Term) -> list:
    """Direct sub-terms of a term (structure aware: keyword names, operator
    strings, loop ids etc. are not terms)."""
    k = t[0]
    if k in ("const", "param", "global", "builtin", "func", "unknown", "unbound", "deep", "rec", "exc", "root"):
        return []
    if k in ("attr", "iter", "enumidx", "item", "enter", "star"):
        return [t[1]]
    if k == "call":
        return [t[1]] + list(t[2]) + [v for _n, v in t[3]]
    if k in ("binop", "aug", "cmp"):
        return [t[2], t[3]]
    if k == "unary":
        return [t[2]]
    if k in ("bool",):
        return list(t[2])
    if k == "sub":
        return [t[1], t[2]]
    if k in ("slice", "ifexp"):
        return list(t[1:4])
    if k in ("tuple", "list", "set", "phi", "fstr"):
        return list(t[1])
    if k == "dict":
        return [x for pair in t[1] for x in pair]
    if k == "update":
        return [t[1], t[2], t[3], t[4]]
    if k == "setattr":
        return [t[1], t[2], t[4]]
    if k == "mut":
        return [t[1], t[3]]
    if k == "comp":
        out = [t[2]]
        for _names, it, conds in t[3]:
            out.append(it)
            out.extend(conds)
        return out
    return []


def subterms(t) -> Iterator[Term]:
    stack = [t]
    while stack:
        x = stack.pop()
        if isinstance(x, tuple) and x and isinstance(x[0], str):
            yield x
            stack.extend(children(x))


def find(t: Term, pred: Callable[[Term], bool]) -> list[Term]:
    return [s for s in subterms(t) if pred(s)]


def contains(t: Term, pred: Callable[[Term], bool]) -> bool:
    return any(pred(s) for s in subterms(t))


def has_global(t: Term, qual: str) -> bool:
    return contains(t, lambda s: s[0] == "global" and s[1] == qual)


def is_call_to(t: Term, *quals: str) -> bool:
    return t[0] == "call" and t[1][0] in ("global", "builtin") and t[1][1] in quals


def is_method_call(t: Term, *names: str) -> bool:
    return t[0] == "call" and t[1][0] == "attr" and t[1][2] in names


def call_arg(t: Term, pos: int, kw: str | None = None) -> Term | None:
    """Positional or keyword argument of a call term."""
    assert t[0] == "call"
    if kw is not None:
        for k, v in t[3]:
            if k == kw:
                return v
    if 0 <= pos < len(t[2]):
        return t[2][pos]
    return None


def alts(t: Term) -> tuple[Term, ...]:
    return t[1] if t[0] == "phi" else (t,)


def attr_chain(t: Term) -> tuple[Term, tuple[str, ...]]:
    """(root, names) of nested attr terms."""
    names: list[str] = []
    while t[0] == "attr":
        names.append(t[2])
        t = t[1]
    return t, tuple(reversed(names))


def attr_path(t: Term) -> str | None:
    """'self._config.variables.mask' style text for attr chains rooted at a
    parameter; None otherwise."""
    root, names = attr_chain(t)
    if root[0] == "param":
        return ".".join((root[2],) + names)
    if root[0] == "global":
        return ".".join((root[1],) + names)
    return None


def ends_with_attrs(t: Term, *names: str) -> bool:
    """``t`` is `<anything>.n1.n2...`; a value that is that attribute path or None
    (`x = None if c is None else c.n1.n2`) counts as the path."""
    if t[0] in ("phi", "ifexp"):
        branches = [a for a in (t[1] if t[0] == "phi" else (t[2], t[3])) if a != NONE]
        return bool(branches) and all(ends_with_attrs(a, *names) for a in branches)
    _, ns = attr_chain(t)
    return len(ns) >= len(names) and ns[-len(names):] == names


def show(t, maxlen: int = 200) -> str:
    s = _show(t)
    return s if len(s) <= maxlen else s[: maxlen - 3] + "..."


def _show(t) -> str:
    if not isinstance(t, tuple) or not t:
        return repr(t)
    k = t[0]
    if k == "const":
        return repr(t[1])
    if k == "param":
        return t[2]
    if k in ("global", "builtin", "func"):
        return t[1].replace("numpy.", "np.")
    if k == "attr":
        return f"{_show(t[1])}.{t[2]}"
    if k == "call":
        a = [_show(x) for x in t[2]] + [f"{n}={_show(v)}" for n, v in t[3]]
        return f"{_show(t[1])}({', '.join(a)})"
    if k == "binop":
        return f"({_show(t[2])} {t[1]} {_show(t[3])})"
    if k == "aug":
        return f"({_show(t[2])} {t[1]}= {_show(t[3])})"
    if k == "unary":
        return f"{t[1]}{_show(t[2])}" if t[1] != "not" else f"not {_show(t[2])}"
    if k == "cmp":
        return f"({_show(t[2])} {t[1]} {_show(t[3])})"
    if k == "bool":
        return "(" + f" {t[1]} ".join(_show(x) for x in t[2]) + ")"
    if k == "sub":
        return f"{_show(t[1])}[{_show(t[2])}]"
    if k == "slice":
        return ":".join("" if x == NONE else _show(x) for x in t[1:])
    if k == "ifexp":
        return f"({_show(t[2])} if {_show(t[1])} else {_show(t[3])})"
    if k in ("tuple", "list", "set"):
        return "(" + ", ".join(_show(x) for x in t[1]) + ")"
    if k == "phi":
        return "phi{" + " | ".join(_show(x) for x in t[1]) + "}"
    if k == "update":
        return f"{_show(t[1])}<[{_show(t[3])}]:={_show(t[4])}>"
    if k == "setattr":
        return f"{_show(t[1])}<.{t[3]}:={_show(t[4])}>"
    if k == "mut":
        return f"{_show(t[1])}<{t[2]}>"
    if k == "iter":
        return f"each({_show(t[1])})"
    if k == "enumidx":
        return f"index({_show(t[1])})"
    if k == "item":
        return f"{_show(t[1])}#{t[2]}"
    if k == "rec":
        return f"<loop {t[1]}@{t[2]}>"
    if k == "comp":
        return f"[{_show(t[2])} for ...]"
    return f"<{k} {' '.join(str(x) for x in t[1:])[:40]}>"
