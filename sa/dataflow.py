"""E3a - reaching definitions and definite assignment on the CFG."""

from __future__ import annotations

import ast
from dataclasses import dataclass, field

from .cfg import CFG, Node, cfg_of
from .model import Func, Repo

MUTATING_METHODS = {
    "append", "extend", "insert", "fill", "sort", "update", "setdefault",
    "setflags", "pop", "remove", "clear", "add", "resize", "put", "itemset",
    "discard", "reverse", "popitem",
}


@dataclass(eq=False)
class Def:
    var: str
    kind: str
    node: Node | None
    target: ast.AST | None = None
    value: ast.AST | None = None
    path: tuple[int, ...] = ()
    extra: object = None
    id: int = field(default=0)

    @property
    def lineno(self) -> int:
        return self.node.lineno if self.node is not None else 0

    def __repr__(self) -> str:
        return f"<Def {self.var}:{self.kind}@{self.lineno}>"


def scope_children(node: ast.AST):
    """Child nodes that belong to the same scope (skip nested defs/lambdas/
    comprehension bodies are *kept*: their free reads belong to this scope)."""
    for child in ast.iter_child_nodes(node):
        if isinstance(child, (ast.FunctionDef, ast.AsyncFunctionDef, ast.Lambda, ast.ClassDef)):
            continue
        yield child


def walk_scope(node: ast.AST):
    """ast.walk restricted to one function scope (nested defs are opaque)."""
    stack = [node]
    while stack:
        n = stack.pop()
        yield n
        stack.extend(scope_children(n))


def walk_body(stmts):
    """Nodes of a function body that belong to the function's own scope: a
    nested def/class statement contributes only its own node (decorators and
    defaults excluded for simplicity)."""
    for s in stmts:
        if isinstance(s, (ast.FunctionDef, ast.AsyncFunctionDef, ast.ClassDef)):
            yield s
        else:
            yield from walk_scope(s)


def comp_bound_names(node: ast.AST) -> set[str]:
    out: set[str] = set()
    if isinstance(node, (ast.ListComp, ast.SetComp, ast.GeneratorExp, ast.DictComp)):
        for g in node.generators:
            for n in ast.walk(g.target):
                if isinstance(n, ast.Name):
                    out.add(n.id)
    return out


STAR_PATH = 1000


def _targets(t: ast.AST, path: tuple[int, ...] = ()):
    """Yield (leaf target, path) for possibly nested tuple targets."""
    if isinstance(t, (ast.Tuple, ast.List)):
        n = len(t.elts)
        star = next((i for i, e in enumerate(t.elts) if isinstance(e, ast.Starred)), None)
        for i, e in enumerate(t.elts):
            if isinstance(e, ast.Starred):
                yield from _targets(e.value, path + (STAR_PATH + i,))  # the starred rest: an unknown slice
            elif star is not None and i > star:
                yield from _targets(e, path + (i - n,))  # counted from the end
            else:
                yield from _targets(e, path + (i,))
    else:
        yield t, path


def _base_name(t: ast.AST) -> str | None:
    """Name at the root of a Subscript/Attribute chain."""
    while isinstance(t, (ast.Subscript, ast.Attribute, ast.Starred)):
        t = t.value
    return t.id if isinstance(t, ast.Name) else None


def _is_none_def(d: Def) -> bool:
    return (
        d.kind == "assign"
        and not d.path
        and isinstance(d.value, ast.Constant)
        and d.value.value is None
    )


class DataFlow:
    def __init__(self, repo: Repo, func: Func) -> None:
        self.repo = repo
        self.func = func
        self.cfg: CFG = cfg_of(repo, func)
        self.defs: list[Def] = []
        self.node_defs: dict[Node, list[Def]] = {}
        self.locals: set[str] = set()
        self.param_defs: dict[str, Def] = {}
        self.unbound: dict[str, Def] = {}
        self._collect_locals()
        self._collect_defs()
        self.IN: dict[Node, dict[str, frozenset[Def]]] = {}
        self.OUT: dict[Node, dict[str, frozenset[Def]]] = {}
        self._solve()

    # ---------------------------------------------------------------- defs
    def _new(self, **kw) -> Def:
        d = Def(**kw)
        d.id = len(self.defs)
        self.defs.append(d)
        if d.node is not None:
            self.node_defs.setdefault(d.node, []).append(d)
        return d

    def _collect_locals(self) -> None:
        f = self.func
        declared: set[str] = set()
        names: set[str] = set(f.params)
        roots = f.body if not isinstance(f.node, ast.Lambda) else [f.node.body]
        for root in roots:
            comp_locals_stack: list[set[str]] = []

            def visit(n: ast.AST, shadow: frozenset[str]) -> None:
                if isinstance(n, (ast.Global, ast.Nonlocal)):
                    declared.update(n.names)
                if isinstance(n, (ast.FunctionDef, ast.AsyncFunctionDef, ast.ClassDef)):
                    names.add(n.name)
                    return
                if isinstance(n, ast.Lambda):
                    return
                if isinstance(n, (ast.ListComp, ast.SetComp, ast.GeneratorExp, ast.DictComp)):
                    shadow = shadow | frozenset(comp_bound_names(n))
                if isinstance(n, ast.Name) and isinstance(n.ctx, (ast.Store, ast.Del)):
                    if n.id not in shadow:
                        names.add(n.id)
                if isinstance(n, ast.ExceptHandler) and n.name:
                    names.add(n.name)
                if isinstance(n, (ast.Import, ast.ImportFrom)):
                    for a in n.names:
                        names.add((a.asname or a.name).split(".")[0])
                if isinstance(n, (ast.MatchAs, ast.MatchStar)) and n.name:
                    names.add(n.name)
                if isinstance(n, ast.MatchMapping) and n.rest:
                    names.add(n.rest)
                for c in ast.iter_child_nodes(n):
                    visit(c, shadow)

            visit(root, frozenset())
        self.locals = names - declared

    def _collect_defs(self) -> None:
        for p in self.func.params:
            d = self._new(var=p, kind="param", node=None)
            self.param_defs[p] = d
        for v in sorted(self.locals):
            if v not in self.param_defs:
                self.unbound[v] = self._new(var=v, kind="unbound", node=None)
        for n in self.cfg.nodes:
            self._defs_of_node(n)

    def _add_target_defs(self, n: Node, target: ast.AST, value: ast.AST | None, kind: str, extra=None) -> None:
        for leaf, path in _targets(target):
            if isinstance(leaf, ast.Name):
                if leaf.id in self.locals:
                    self._new(var=leaf.id, kind=kind, node=n, target=leaf, value=value, path=path, extra=extra)
            elif isinstance(leaf, ast.Subscript):
                b = _base_name(leaf)
                through_attr = False
                cur = leaf.value
                while isinstance(cur, (ast.Subscript, ast.Attribute)):
                    if isinstance(cur, ast.Attribute):
                        through_attr = True
                    cur = cur.value
                # ``a.b[i] = v`` mutates the object a.b, it does not rebind a or a.b
                if b in self.locals and not through_attr:
                    self._new(var=b, kind="substore", node=n, target=leaf, value=value, path=path, extra=kind)
            elif isinstance(leaf, ast.Attribute):
                b = _base_name(leaf)
                if b in self.locals:
                    self._new(var=b, kind="attrstore", node=n, target=leaf, value=value, path=path, extra=kind)

    def _expr_defs(self, n: Node, expr: ast.AST | None) -> None:
        """Walrus bindings and mutating method calls inside an expression."""
        if expr is None:
            return
        for sub in walk_scope(expr):
            if isinstance(sub, ast.NamedExpr) and isinstance(sub.target, ast.Name):
                if sub.target.id in self.locals:
                    self._new(var=sub.target.id, kind="assign", node=n, target=sub.target, value=sub.value)
            elif isinstance(sub, ast.Call) and isinstance(sub.func, ast.Attribute):
                if sub.func.attr in MUTATING_METHODS:
                    b = _base_name(sub.func.value)
                    if b in self.locals:
                        self._new(var=b, kind="mutcall", node=n, target=sub.func.value, value=sub, extra=sub.func.attr)
                elif (
                    isinstance(sub.func.value, ast.Name)
                    and self.func.cls is not None
                    and self.func.positional
                    and sub.func.value.id == self.func.positional[0]
                    and not self.func.is_static
                ):
                    # a method call on self may rebind self's attributes
                    self._new(var=sub.func.value.id, kind="mutcall", node=n, target=sub.func.value, value=sub, extra=f"call:{sub.func.attr}")
            elif isinstance(sub, ast.Call):
                # out= keyword of numpy functions mutates the named array
                for kw in sub.keywords:
                    if kw.arg == "out":
                        b = _base_name(kw.value)
                        if b in self.locals:
                            self._new(var=b, kind="mutcall", node=n, target=kw.value, value=sub, extra="out=")

    def _defs_of_node(self, n: Node) -> None:
        a = n.ast
        if n.kind in ("stmt", "def"):
            if isinstance(a, ast.Assign):
                self._expr_defs(n, a.value)
                for t in a.targets:
                    self._add_target_defs(n, t, a.value, "assign")
            elif isinstance(a, ast.AnnAssign):
                if a.value is not None:
                    self._expr_defs(n, a.value)
                    self._add_target_defs(n, a.target, a.value, "assign")
            elif isinstance(a, ast.AugAssign):
                self._expr_defs(n, a.value)
                self._add_target_defs(n, a.target, a.value, "aug", extra=a.op)
            elif isinstance(a, (ast.FunctionDef, ast.AsyncFunctionDef, ast.ClassDef)):
                if a.name in self.locals:
                    self._new(var=a.name, kind="def", node=n, target=a, value=a)
            elif isinstance(a, (ast.Import, ast.ImportFrom)):
                for al in a.names:
                    nm = (al.asname or al.name).split(".")[0]
                    if nm in self.locals:
                        self._new(var=nm, kind="import", node=n, target=a, value=a, extra=al)
            elif isinstance(a, ast.Delete):
                for t in a.targets:
                    if isinstance(t, ast.Name) and t.id in self.locals:
                        self._new(var=t.id, kind="del", node=n, target=t)
                    elif isinstance(t, (ast.Subscript, ast.Attribute)):
                        b = _base_name(t)
                        if b in self.locals:
                            self._new(var=b, kind="mutcall", node=n, target=t, value=None, extra="del")
            elif isinstance(a, ast.Expr):
                self._expr_defs(n, a.value)
            elif isinstance(a, (ast.Return,)):
                self._expr_defs(n, a.value)
            elif isinstance(a, ast.Assert):
                self._expr_defs(n, a.test)
            elif isinstance(a, ast.Raise):
                self._expr_defs(n, a.exc)
        elif n.kind == "test":
            self._expr_defs(n, a)
        elif n.kind == "iter":
            assert isinstance(a, (ast.For, ast.AsyncFor))
            self._expr_defs(n, a.iter)
            self._add_target_defs(n, a.target, a.iter, "for", extra=a)
        elif n.kind == "with":
            assert isinstance(a, ast.withitem)
            self._expr_defs(n, a.context_expr)
            if a.optional_vars is not None:
                self._add_target_defs(n, a.optional_vars, a.context_expr, "with")
        elif n.kind == "except":
            assert isinstance(a, ast.ExceptHandler)
            if a.name and a.name in self.locals:
                self._new(var=a.name, kind="except", node=n, target=a, value=a.type)
        elif n.kind == "match":
            self._expr_defs(n, a)
        elif n.kind == "case":
            assert isinstance(a, ast.match_case)
            for sub in ast.walk(a.pattern):
                nm = None
                if isinstance(sub, (ast.MatchAs, ast.MatchStar)):
                    nm = sub.name
                elif isinstance(sub, ast.MatchMapping):
                    nm = sub.rest
                if nm and nm in self.locals:
                    self._new(var=nm, kind="match", node=n, target=sub, value=None)
            if a.guard is not None:
                self._expr_defs(n, a.guard)

    # --------------------------------------------------------------- solve
    def _solve(self) -> None:
        cfg = self.cfg
        init: dict[str, frozenset[Def]] = {}
        for p, d in self.param_defs.items():
            init[p] = frozenset([d])
        for v, d in self.unbound.items():
            init[v] = frozenset([d])
        empty: dict[str, frozenset[Def]] = {}
        IN = {n: dict(empty) for n in cfg.nodes}
        OUT = {n: dict(empty) for n in cfg.nodes}
        OUT[cfg.entry] = dict(init)
        IN[cfg.entry] = dict(init)
        work = list(cfg.nodes)
        inwork = set(work)
        while work:
            n = work.pop(0)
            inwork.discard(n)
            if n is not cfg.entry:
                acc: dict[str, set[Def]] = {}
                for p, lab in n.pred:
                    src = IN[p] if lab == "exc" else OUT[p]
                    drop = self._none_refinement(p, lab)
                    for v, ds in src.items():
                        if drop is not None and v == drop:
                            ds = frozenset(d for d in ds if not _is_none_def(d)) or ds
                        acc.setdefault(v, set()).update(ds)
                newin = {v: frozenset(ds) for v, ds in acc.items()}
                IN[n] = newin
            else:
                newin = IN[n]
            out = dict(newin)
            for d in self.node_defs.get(n, []):
                out[d.var] = frozenset([d])
            # several defs of the same var in one node (rare): last wins, but
            # keep weak-update chains by letting the later def see the earlier
            if out != OUT[n]:
                OUT[n] = out
                for m, _ in n.succ:
                    if m not in inwork:
                        work.append(m)
                        inwork.add(m)
        self.IN, self.OUT = IN, OUT

    @staticmethod
    def _none_refinement(p: Node, lab: str) -> str | None:
        """Variable known to be *not None* along edge (p, lab): the branch of
        ``x is None`` / ``x is not None`` / ``x`` tests.  Definitions that
        assign the literal None are dropped along that edge (infeasible)."""
        if p.kind != "test" or lab not in ("true", "false"):
            return None
        t = p.ast
        neg = False
        while isinstance(t, ast.UnaryOp) and isinstance(t.op, ast.Not):
            t = t.operand
            neg = not neg
        if (
            isinstance(t, ast.Compare)
            and len(t.ops) == 1
            and isinstance(t.left, ast.Name)
            and isinstance(t.comparators[0], ast.Constant)
            and t.comparators[0].value is None
        ):
            is_none_when_true = isinstance(t.ops[0], ast.Is)
            if isinstance(t.ops[0], (ast.Is, ast.IsNot)):
                if neg:
                    is_none_when_true = not is_none_when_true
                not_none_label = "false" if is_none_when_true else "true"
                return t.left.id if lab == not_none_label else None
        return None

    # -------------------------------------------------------------- queries
    def reaching(self, node: Node, var: str) -> frozenset[Def]:
        return self.IN.get(node, {}).get(var, frozenset())

    def reaching_out(self, node: Node, var: str) -> frozenset[Def]:
        return self.OUT.get(node, {}).get(var, frozenset())

    def defs_of(self, var: str) -> list[Def]:
        return [d for d in self.defs if d.var == var and d.kind not in ("unbound",)]

    def uses_in_node(self, node: Node) -> list[ast.Name]:
        """Name loads evaluated by this CFG node (same scope only; reads inside
        nested lambdas/defs are not evaluated here)."""
        a = node.ast
        roots: list[ast.AST] = []
        if node.kind in ("stmt",):
            roots = [a] if a is not None else []
        elif node.kind in ("test", "match"):
            roots = [a] if a is not None else []
        elif node.kind == "iter":
            roots = [a.iter]  # type: ignore[union-attr]
            roots += [t for t, _ in _targets(a.target) if not isinstance(t, ast.Name)]  # type: ignore[union-attr]
        elif node.kind == "with":
            roots = [a.context_expr]  # type: ignore[union-attr]
        elif node.kind == "except":
            roots = [a.type] if a.type is not None else []  # type: ignore[union-attr]
        elif node.kind == "case":
            roots = [a.guard] if a.guard is not None else []  # type: ignore[union-attr]
            roots.append(a.pattern)  # type: ignore[union-attr]
        elif node.kind == "def":
            roots = list(getattr(a, "decorator_list", []))
            if isinstance(a, (ast.FunctionDef, ast.AsyncFunctionDef)):
                roots += [d for d in a.args.defaults + a.args.kw_defaults if d is not None]
        out: list[ast.Name] = []
        for r in roots:
            def visit(n: ast.AST, shadow: frozenset[str]) -> None:
                if isinstance(n, (ast.ListComp, ast.SetComp, ast.GeneratorExp, ast.DictComp)):
                    shadow = shadow | frozenset(comp_bound_names(n))
                if isinstance(n, ast.Name) and isinstance(n.ctx, ast.Load) and n.id not in shadow:
                    out.append(n)
                for c in scope_children(n):
                    visit(c, shadow)
            visit(r, frozenset())
        return out


def dataflow_of(repo: Repo, func: Func) -> DataFlow:
    cache = repo.__dict__.setdefault("_df_cache", {})
    d = cache.get(func.qualname)
    if d is None or d.func is not func:
        d = DataFlow(repo, func)
        cache[func.qualname] = d
    return d
