"""Command line driver: ``python -m sa.cli <ID> --tier quick|thorough``.

exit 0  property held on every obligation instance (KNOWN-FINDING lines allowed)
exit 1  at least one ``VIOLATION property=<id> replay=<path>`` line
exit 2  ANALYSIS-ERROR (cannot decide: parse error, vanished anchor, ...)
"""

from __future__ import annotations

import argparse
import importlib
import json
import os
import sys
import time
import traceback

from .core import META, VERIF, Ctx, load_known, match_known, run_rules
from .model import AnalysisError, Repo

ASSUMPTIONS = [
    "Python `ast` semantics as encoded by the CFG: exceptions are modelled for calls, raise, assert, yield/await; not for attribute access, arithmetic or subscripts",
    "NumPy view/copy/in-place table of DESIGN.md section 4",
    "pydantic v2 validator ordering and model_copy/model_construct semantics (DESIGN.md section 4)",
    "SciPy contracts: minimize/differential_evolution may call any callable they were given, at any point, in any order; 'ineq' means fun(x) >= 0",
    "structural clauses decided are necessary conditions of the behavioural property; floating point equality 'up to rounding', conditioning and convergence are not decided",
]


def main(argv: list[str] | None = None) -> int:
    ap = argparse.ArgumentParser()
    ap.add_argument("prop")
    ap.add_argument("--tier", default=os.environ.get("VERIF_TIER", "quick"), choices=["quick", "thorough"])
    ap.add_argument("--repo", default="/repo")
    ap.add_argument("--replay", default=None)
    ap.add_argument("--no-evidence", action="store_true")
    ap.add_argument("--evidence-dir", default=os.path.join(VERIF, "evidence"))
    args = ap.parse_args(argv)
    prop = args.prop.upper()
    t0 = time.time()
    try:
        return _run(prop, args, t0)
    except AnalysisError as exc:
        print(f"ANALYSIS-ERROR property={prop}: {exc}")
        return 2
    except Exception:  # noqa: BLE001
        traceback.print_exc()
        print(f"ANALYSIS-ERROR property={prop}: internal error in the checker (traceback above)")
        return 2


def _run(prop: str, args, t0: float) -> int:
    try:
        importlib.import_module(f"sa.rules.{prop.lower()}")
    except ModuleNotFoundError as exc:
        raise AnalysisError(f"no rules for property {prop}: {exc}") from exc
    repo = Repo(args.repo)
    ctx = Ctx(repo, args.tier)
    results = run_rules(ctx, prop)
    known = load_known()

    replay_key = None
    if args.replay:
        with open(args.replay, encoding="utf-8") as fh:
            replay_key = json.load(fh).get("key")

    n_inst = sum(len(r.instances) for r in results)
    n_ok = sum(1 for r in results for i in r.instances if i.ok)
    violations = []
    known_hits = []
    for r in results:
        for inst in r.instances:
            if inst.ok:
                continue
            hit = match_known(inst, prop, known)
            if hit is not None:
                known_hits.append((inst, hit))
            else:
                violations.append(inst)

    print(f"== {prop} [{args.tier}] static analysis of {repo.root}")
    print(
        f"   analysed: {len(repo.modules)} modules, {len(repo.funcs)} functions, "
        f"{len(repo.classes)} classes"
    )
    for r in results:
        bad = [i for i in r.instances if not i.ok]
        print(
            f"   rule {r.rule} [{r.kind}] {r.title}: {len(r.instances)} obligation(s), "
            f"{len(r.instances) - len(bad)} discharged"
            + (" (exhaustive)" if r.exhaustive else "")
        )
        for n in r.notes:
            print(f"      note: {n}")
    for inst, hit in known_hits:
        print(f"KNOWN-FINDING: property={prop} {inst.rule} {inst.where} {inst.func}: {hit.get('what', inst.detail)}")

    vdir = os.path.join(args.evidence_dir, "violations")
    exit_code = 0
    shown = violations
    if replay_key is not None:
        shown = [v for v in violations if v.key == replay_key]
        if not shown:
            print(f"replay: instance {replay_key!r} does not violate on this tree")
    for n, inst in enumerate(shown):
        exit_code = 1
        print(f"-- violation of {inst.rule} at {inst.where} in {inst.func}")
        print(f"   construct : {inst.construct}")
        print(f"   obligation: {inst.obligation}")
        if inst.detail:
            print(f"   reason    : {inst.detail}")
        for w in inst.witness:
            print(f"   witness   : {w}")
        path = os.path.join(vdir, f"{prop}-{n}.json")
        if not args.no_evidence:
            os.makedirs(vdir, exist_ok=True)
            with open(path, "w", encoding="utf-8") as fh:
                json.dump({"property": prop, "key": inst.key, **inst.as_dict()}, fh, indent=1)
        print(f"VIOLATION property={prop} replay={path}")

    sens = None
    if args.tier == "thorough" and replay_key is None:
        from .mutate import sensitivity

        funcs = sorted({i.func for r in results for i in r.instances if i.func in repo.funcs})
        sens = sensitivity(repo, prop, funcs, known, limit=int(os.environ.get("VERIF_MUTANTS", "160")), seed=int(os.environ.get("VERIF_SEED", "0") or 0))
        print(
            f"   sensitivity (E9): {sens.get('mutants', 0)} in-memory mutants of {len(sens.get('functions_mutated', []))} functions: "
            f"{sens.get('killed', 0)} killed, {sens.get('undecided', 0)} undecidable, {sens.get('survived', 0)} survived, {sens.get('error', 0)} checker errors"
        )
        if os.environ.get("VERIF_ALL_SURVIVORS"):
            for lab in sens.get("survivor_samples", []):
                print(f"   survivor  : {lab}")
    wall = time.time() - t0
    if not args.no_evidence and replay_key is None:
        _write_evidence(prop, args, repo, ctx, results, violations, known_hits, n_inst, n_ok, wall, sens)
    print(
        f"== {prop}: {n_inst} obligations, {n_ok} discharged, {len(known_hits)} known finding(s), "
        f"{len(violations)} violation(s), {wall:.2f}s"
    )
    return exit_code


def _write_evidence(prop, args, repo, ctx, results, violations, known_hits, n_inst, n_ok, wall, sens=None) -> None:
    os.makedirs(args.evidence_dir, exist_ok=True)
    meta = META.get(prop, {})
    samples = []
    for r in results:
        for inst in r.instances[:3]:
            samples.append(inst.as_dict())
    distinct = len({i.key for r in results for i in r.instances})
    cov = {
        "explanation": meta.get(
            "explanation",
            "Static analysis of the current /repo working tree (ast -> CFG -> reaching definitions -> symbolic terms -> call graph); "
            "each rule enumerates its obligation sites from the source and decides every one; see rules[].",
        ),
        "evaluations": n_inst,
        "distinct_nontrivial": distinct,
        "rule": "an obligation instance is a sink construct (call site, store, read, handler, comparison) found in the current source; "
        "distinct = different (rule, function, normalised construct); every instance is decided, none is sampled",
        "obligations": n_inst,
        "discharged": n_ok,
        "samples": samples[:12],
        "exhaustive": all(r.exhaustive for r in results) if results else False,
        "analysed": {
            "repo": repo.root,
            "modules": len(repo.modules),
            "functions": len(repo.funcs),
            "classes": len(repo.classes),
        },
        "rules": [
            {
                "id": r.rule,
                "kind": r.kind,
                "title": r.title,
                "obligations": len(r.instances),
                "discharged": sum(1 for i in r.instances if i.ok),
                "floor": r.floor,
                "exhaustive": r.exhaustive,
                "notes": r.notes,
                "sites": sorted({f"{i.where} {i.func.rsplit('.', 1)[-1]}" for i in r.instances})[:40],
            }
            for r in results
        ],
        "known_findings_matched": [i.key for i, _ in known_hits],
        "not_decided": meta.get("not_decided", []),
    }
    if sens is not None:
        cov["sensitivity"] = sens
        cov["evaluations"] = n_inst + sens.get("mutants", 0)
    if ctx._cg is not None:
        cov["call_graph"] = {
            "call_sites": ctx.cg.n_calls,
            "resolved_into_package": ctx.cg.n_resolved,
            "external_or_builtin": ctx.cg.n_external,
            "unresolved": len(ctx.cg.unresolved),
            "unresolved_sites": [f"{f.where(c)}" for f, c in ctx.cg.unresolved][:30],
        }
    ev = {
        "property_id": prop,
        "tier": args.tier,
        "seed": int(os.environ.get("VERIF_SEED", "0") or 0),
        "level": "other",
        "coverage": cov,
        "assumptions": ASSUMPTIONS + meta.get("assumptions", []),
        "wall_s": round(wall, 3),
        "violations": len(violations),
    }
    with open(os.path.join(args.evidence_dir, f"{prop}.json"), "w", encoding="utf-8") as fh:
        json.dump(ev, fh, indent=1, default=str)


if __name__ == "__main__":
    sys.exit(main())
