"""E2 - statement-level control-flow graph with exceptional edges.

One ``CFG`` per function.  Nodes are simple statements or the *header
expression* of a compound statement (``if``/``while`` test, ``for`` iterator,
``with`` item, ``except`` clause, ``match`` subject / ``case`` pattern).  Two
exits: ``exit`` (normal return) and ``raise`` (exception escapes).

Exceptions: a node may raise when it contains a call, ``raise``, ``assert``,
``yield`` or ``await``; the edge goes to the matching handlers of the enclosing
``try`` statements (class hierarchy of the package and a table of builtins),
through copies of ``finally`` bodies, else to the ``raise`` exit.
``with contextlib.suppress(E)`` is modelled as ``try: ... except E: pass``.
Exceptions from attribute access / arithmetic / subscripts are not modelled.
"""

from __future__ import annotations

import ast
from typing import Callable, Iterable

from .model import Func, Repo, dotted

_BUILTIN_EXC_BASES = {
    "BaseException": None,
    "Exception": "BaseException",
    "KeyboardInterrupt": "BaseException",
    "SystemExit": "BaseException",
    "GeneratorExit": "BaseException",
    "ArithmeticError": "Exception",
    "ZeroDivisionError": "ArithmeticError",
    "OverflowError": "ArithmeticError",
    "FloatingPointError": "ArithmeticError",
    "AssertionError": "Exception",
    "AttributeError": "Exception",
    "LookupError": "Exception",
    "IndexError": "LookupError",
    "KeyError": "LookupError",
    "NameError": "Exception",
    "UnboundLocalError": "NameError",
    "OSError": "Exception",
    "IOError": "Exception",
    "FileNotFoundError": "OSError",
    "ProcessLookupError": "OSError",
    "PermissionError": "OSError",
    "TimeoutError": "OSError",
    "BlockingIOError": "OSError",
    "BrokenPipeError": "OSError",
    "RuntimeError": "Exception",
    "NotImplementedError": "RuntimeError",
    "RecursionError": "RuntimeError",
    "StopIteration": "Exception",
    "TypeError": "Exception",
    "ValueError": "Exception",
    "UnicodeError": "ValueError",
    "ImportError": "Exception",
    "subprocess.TimeoutExpired": "Exception",
    "json.JSONDecodeError": "ValueError",
}


class Node:
    __slots__ = ("id", "kind", "ast", "stmt", "succ", "pred", "tag")

    def __init__(self, nid: int, kind: str, node: ast.AST | None, stmt: ast.AST | None):
        self.id = nid
        self.kind = kind
        self.ast = node
        self.stmt = stmt
        self.succ: list[tuple[Node, str]] = []
        self.pred: list[tuple[Node, str]] = []
        self.tag: str = ""

    @property
    def lineno(self) -> int:
        return getattr(self.ast, "lineno", 0) or getattr(self.stmt, "lineno", 0) or 0

    def __repr__(self) -> str:
        return f"<N{self.id} {self.kind}@{self.lineno}>"


class _Frame:
    def __init__(self, kind: str) -> None:
        self.kind = kind  # 'try' | 'suppress' | 'loop'
        self.state = "body"
        self.handlers: list[tuple[Node, list[str] | None]] = []
        self.finalbody: list[ast.stmt] | None = None
        self.after: list[tuple[Node, str]] = []  # suppress: dangling edges to after
        self.classes: list[str] | None = None
        self.fin_exc_entry: Node | None = None
        self.continue_target: Node | None = None
        self.breaks: list[tuple[Node, str]] = []


def may_raise_expr(node: ast.AST) -> bool:
    for n in ast.walk(node):
        if isinstance(n, (ast.Call, ast.Await, ast.Yield, ast.YieldFrom)):
            return True
        if isinstance(n, ast.Lambda):
            continue
    return False


class CFG:
    def __init__(self, repo: Repo, func: Func) -> None:
        self.repo = repo
        self.func = func
        self.nodes: list[Node] = []
        self.entry = self._new("entry", None, None)
        self.exit = self._new("exit", None, None)
        self.raise_exit = self._new("raise", None, None)
        self._stack: list[_Frame] = []
        self._node_of: dict[int, list[Node]] = {}
        frontier = self._block(func.body, [(self.entry, "next")])
        self._connect(frontier, self.exit)
        self._dom: dict[Node, set[Node]] | None = None
        self._pdom: dict[Node, set[Node]] | None = None

    # ------------------------------------------------------------ utilities
    def _new(self, kind: str, node: ast.AST | None, stmt: ast.AST | None) -> Node:
        n = Node(len(self.nodes), kind, node, stmt)
        self.nodes.append(n)
        if node is not None:
            self._node_of.setdefault(id(node), []).append(n)
        return n

    def _connect(self, frontier: list[tuple[Node, str]], target: Node) -> None:
        for src, label in frontier:
            if (target, label) not in src.succ:
                src.succ.append((target, label))
                target.pred.append((src, label))

    def nodes_for(self, node: ast.AST) -> list[Node]:
        """CFG nodes whose ``ast`` is ``node`` (several for ``finally`` copies)."""
        return self._node_of.get(id(node), [])

    def node_containing(self, expr: ast.AST) -> list[Node]:
        """CFG nodes whose ast subtree contains ``expr``."""
        from .model import parent

        cur: ast.AST | None = expr
        while cur is not None:
            if id(cur) in self._node_of:
                return self._node_of[id(cur)]
            cur = parent(cur)
        return []

    # ------------------------------------------------------ exception model
    def _exc_qual(self, node: ast.expr | None) -> str | None:
        """Qualified class name of a raised / caught exception expression."""
        if node is None:
            return None
        if isinstance(node, ast.Call):
            node = node.func
        d = dotted(node)
        if d is None:
            return None
        q = self.repo.resolve_in_module(self.func.module, d)
        if q is not None:
            return q
        return d

    def _is_sub(self, exc: str, handler: str) -> str:
        """'yes' / 'no' / 'maybe'."""
        if handler in ("BaseException",):
            return "yes"
        if exc == handler:
            return "yes"
        if exc in self.repo.classes:
            if self.repo.is_subclass(exc, handler):
                return "yes"
            # walk to builtin bases
            for k in self.repo.mro(self.repo.classes[exc]):
                for b in k.base_names:
                    if b not in self.repo.classes and self._is_sub(b, handler) == "yes":
                        return "yes"
            return "no"
        cur: str | None = exc
        seen = 0
        while cur is not None and seen < 10:
            if cur == handler:
                return "yes"
            if cur not in _BUILTIN_EXC_BASES:
                return "maybe"
            cur = _BUILTIN_EXC_BASES[cur]
            seen += 1
        return "no"

    def _match(self, exc: str | None, classes: list[str] | None) -> str:
        if classes is None:
            return "yes"
        if exc is None:
            # unknown exception raised by a call: an ``Exception`` handler
            # catches it (BaseException-only exits are not modelled)
            if any(c in ("Exception", "BaseException") for c in classes):
                return "yes"
            return "maybe"
        best = "no"
        for c in classes:
            r = self._is_sub(exc, c)
            if r == "yes":
                return "yes"
            if r == "maybe":
                best = "maybe"
        return best

    def _handler_classes(self, h: ast.ExceptHandler) -> list[str] | None:
        if h.type is None:
            return None
        elts = h.type.elts if isinstance(h.type, ast.Tuple) else [h.type]
        return [self._exc_qual(e) or "?" for e in elts]

    def _route_exc(
        self, frontier: list[tuple[Node, str]], exc: str | None, depth: int | None = None
    ) -> None:
        if depth is None:
            depth = len(self._stack)
        for i in range(depth - 1, -1, -1):
            fr = self._stack[i]
            if fr.kind == "try":
                if fr.state == "body":
                    definite = False
                    for hnode, classes in fr.handlers:
                        m = self._match(exc, classes)
                        if m != "no":
                            self._connect(frontier, hnode)
                        if m == "yes":
                            definite = True
                            break
                    if definite:
                        return
                if fr.state in ("body", "handler", "else") and fr.finalbody is not None:
                    if fr.fin_exc_entry is None:
                        saved = self._stack
                        self._stack = saved[:i]
                        ent = self._new("join", None, None)
                        ent.tag = "finally(exc)"
                        fr.fin_exc_entry = ent
                        out = self._block(fr.finalbody, [(ent, "next")])
                        # after the finally body the exception continues outward
                        self._route_exc(
                            [(n, "exc") for n, _ in out], None, depth=i
                        )
                        self._stack = saved
                    self._connect(frontier, fr.fin_exc_entry)
                    return
            elif fr.kind == "suppress":
                m = self._match(exc, fr.classes)
                if m != "no":
                    fr.after.extend(frontier)
                if m == "yes":
                    return
        self._connect(frontier, self.raise_exit)

    def _maybe_raise(self, n: Node, expr: ast.AST | None) -> None:
        if expr is not None and may_raise_expr(expr):
            self._route_exc([(n, "exc")], None)

    # -------------------------------------------------------- finally paths
    def _run_finallies(
        self, frontier: list[tuple[Node, str]], down_to: int
    ) -> list[tuple[Node, str]]:
        """Inline copies of the ``finally`` bodies of the try frames above
        ``down_to`` (for return / break / continue)."""
        for i in range(len(self._stack) - 1, down_to - 1, -1):
            fr = self._stack[i]
            if fr.kind == "try" and fr.finalbody is not None and fr.state != "final":
                saved = self._stack
                self._stack = saved[:i]
                frontier = self._block(fr.finalbody, frontier)
                self._stack = saved
        return frontier

    # ------------------------------------------------------------- builders
    def _block(
        self, stmts: Iterable[ast.stmt], frontier: list[tuple[Node, str]]
    ) -> list[tuple[Node, str]]:
        for s in stmts:
            if not frontier:
                # unreachable code: still build it (detached) so that lookups work
                frontier = []
            frontier = self._stmt(s, frontier)
        return frontier

    def _simple(
        self, s: ast.stmt, frontier: list[tuple[Node, str]], kind: str = "stmt"
    ) -> tuple[Node, list[tuple[Node, str]]]:
        n = self._new(kind, s, s)
        self._connect(frontier, n)
        return n, [(n, "next")]

    def _stmt(self, s: ast.stmt, frontier: list[tuple[Node, str]]) -> list[tuple[Node, str]]:
        if isinstance(s, ast.If):
            t = self._new("test", s.test, s)
            self._connect(frontier, t)
            self._maybe_raise(t, s.test)
            out = self._block(s.body, [(t, "true")])
            out += self._block(s.orelse, [(t, "false")]) if s.orelse else [(t, "false")]
            return out
        if isinstance(s, ast.While):
            t = self._new("test", s.test, s)
            self._connect(frontier, t)
            self._maybe_raise(t, s.test)
            fr = _Frame("loop")
            fr.continue_target = t
            self._stack.append(fr)
            body_out = self._block(s.body, [(t, "true")])
            self._stack.pop()
            self._connect(body_out, t)
            const_true = isinstance(s.test, ast.Constant) and bool(s.test.value)
            out: list[tuple[Node, str]] = [] if const_true else [(t, "false")]
            if s.orelse:
                out = self._block(s.orelse, out)
            return out + fr.breaks
        if isinstance(s, (ast.For, ast.AsyncFor)):
            h = self._new("iter", s, s)
            self._connect(frontier, h)
            self._maybe_raise(h, s.iter)
            fr = _Frame("loop")
            fr.continue_target = h
            self._stack.append(fr)
            body_out = self._block(s.body, [(h, "loop")])
            self._stack.pop()
            self._connect(body_out, h)
            out = [(h, "done")]
            if s.orelse:
                out = self._block(s.orelse, out)
            return out + fr.breaks
        if isinstance(s, ast.Break):
            n, out = self._simple(s, frontier)
            idx = self._loop_index()
            out = self._run_finallies(out, idx + 1)
            self._stack[idx].breaks.extend(out)
            return []
        if isinstance(s, ast.Continue):
            n, out = self._simple(s, frontier)
            idx = self._loop_index()
            out = self._run_finallies(out, idx + 1)
            tgt = self._stack[idx].continue_target
            assert tgt is not None
            self._connect(out, tgt)
            return []
        if isinstance(s, ast.Return):
            n, out = self._simple(s, frontier)
            self._maybe_raise(n, s.value)
            out = self._run_finallies(out, 0)
            self._connect([(a, "return") for a, _ in out], self.exit)
            return []
        if isinstance(s, ast.Raise):
            n, _ = self._simple(s, frontier)
            exc = self._exc_qual(s.exc) if s.exc is not None else None
            if s.exc is not None and isinstance(s.exc, ast.Name):
                # ``raise exception`` of a stored exception object: class unknown
                q = self._exc_qual(s.exc)
                if q is None or (q not in self.repo.classes and q not in _BUILTIN_EXC_BASES):
                    exc = None
            self._route_exc([(n, "exc")], exc)
            return []
        if isinstance(s, ast.Assert):
            n, out = self._simple(s, frontier)
            self._route_exc([(n, "exc")], "AssertionError")
            return out
        if isinstance(s, (ast.With, ast.AsyncWith)):
            return self._with(s, 0, frontier)
        if isinstance(s, ast.Try) or s.__class__.__name__ == "TryStar":
            return self._try(s, frontier)  # type: ignore[arg-type]
        if isinstance(s, ast.Match):
            return self._match_stmt(s, frontier)
        if isinstance(s, (ast.FunctionDef, ast.AsyncFunctionDef, ast.ClassDef)):
            n, out = self._simple(s, frontier, "def")
            return out
        # simple statements
        n, out = self._simple(s, frontier)
        self._maybe_raise(n, s)
        return out

    def _loop_index(self) -> int:
        for i in range(len(self._stack) - 1, -1, -1):
            if self._stack[i].kind == "loop":
                return i
        raise AssertionError("break/continue outside loop")

    def _with(
        self, s: ast.With | ast.AsyncWith, k: int, frontier: list[tuple[Node, str]]
    ) -> list[tuple[Node, str]]:
        if k == len(s.items):
            return self._block(s.body, frontier)
        item = s.items[k]
        n = self._new("with", item, s)
        self._connect(frontier, n)
        self._maybe_raise(n, item.context_expr)
        sup = self._suppress_classes(item.context_expr)
        if sup is not None:
            fr = _Frame("suppress")
            fr.classes = sup
            self._stack.append(fr)
            out = self._with(s, k + 1, [(n, "next")])
            self._stack.pop()
            return out + fr.after
        return self._with(s, k + 1, [(n, "next")])

    def _suppress_classes(self, e: ast.expr) -> list[str] | None:
        if isinstance(e, ast.Call):
            d = dotted(e.func)
            if d is not None:
                q = self.repo.resolve_in_module(self.func.module, d) or d
                if q in ("contextlib.suppress", "suppress"):
                    return [self._exc_qual(a) or "?" for a in e.args]
        return None

    def _try(self, s: ast.Try, frontier: list[tuple[Node, str]]) -> list[tuple[Node, str]]:
        fr = _Frame("try")
        fr.finalbody = s.finalbody or None
        for h in s.handlers:
            hn = self._new("except", h, s)
            fr.handlers.append((hn, self._handler_classes(h)))
        self._stack.append(fr)
        fr.state = "body"
        out = self._block(s.body, frontier)
        fr.state = "else"
        if s.orelse:
            out = self._block(s.orelse, out)
        fr.state = "handler"
        for (hn, _), h in zip(fr.handlers, s.handlers):
            out += self._block(h.body, [(hn, "next")])
        fr.state = "final"
        self._stack.pop()
        if s.finalbody:
            out = self._block(s.finalbody, out)
        return out

    def _match_stmt(self, s: ast.Match, frontier: list[tuple[Node, str]]) -> list[tuple[Node, str]]:
        subj = self._new("match", s.subject, s)
        self._connect(frontier, subj)
        self._maybe_raise(subj, s.subject)
        cur: list[tuple[Node, str]] = [(subj, "next")]
        out: list[tuple[Node, str]] = []
        for case in s.cases:
            c = self._new("case", case, s)
            self._connect(cur, c)
            if case.guard is not None:
                self._maybe_raise(c, case.guard)
            out += self._block(case.body, [(c, "true")])
            irrefutable = (
                case.guard is None
                and isinstance(case.pattern, ast.MatchAs)
                and case.pattern.pattern is None
            )
            cur = [] if irrefutable else [(c, "false")]
        return out + cur

    # --------------------------------------------------------------- queries
    def reachable_from(
        self,
        start: Iterable[Node],
        blocked: Callable[[Node], bool] | None = None,
        labels: Callable[[str], bool] | None = None,
    ) -> set[Node]:
        seen: set[Node] = set()
        work = [n for n in start]
        while work:
            n = work.pop()
            if n in seen:
                continue
            seen.add(n)
            for m, lab in n.succ:
                if labels is not None and not labels(lab):
                    continue
                if blocked is not None and blocked(m):
                    continue
                if m not in seen:
                    work.append(m)
        return seen

    def path(
        self,
        start: Node,
        goal: Callable[[Node], bool],
        blocked: Callable[[Node], bool] | None = None,
        labels: Callable[[str], bool] | None = None,
    ) -> list[Node] | None:
        """Shortest path (BFS) from start to a node satisfying goal, avoiding
        blocked nodes; None if there is none."""
        from collections import deque

        prev: dict[Node, Node | None] = {start: None}
        dq = deque([start])
        while dq:
            n = dq.popleft()
            if goal(n) and n is not start:
                out = [n]
                while prev[out[-1]] is not None:
                    out.append(prev[out[-1]])  # type: ignore[arg-type]
                return list(reversed(out))
            for m, lab in n.succ:
                if labels is not None and not labels(lab):
                    continue
                if m in prev:
                    continue
                if blocked is not None and blocked(m) and not goal(m):
                    continue
                prev[m] = n
                dq.append(m)
        return None

    def must_pass(
        self,
        start: Node,
        target: Node,
        through: Callable[[Node], bool],
        labels: Callable[[str], bool] | None = None,
    ) -> list[Node] | None:
        """None if every path start->target passes a node satisfying
        ``through``; otherwise a witness path avoiding such nodes."""
        if through(start):
            return None
        return self.path(start, lambda n: n is target, blocked=through, labels=labels)

    def dominators(self) -> dict[Node, set[Node]]:
        if self._dom is None:
            self._dom = _dominators(self.nodes, self.entry, lambda n: [p for p, _ in n.pred])
        return self._dom

    def dominates(self, a: Node, b: Node) -> bool:
        return a in self.dominators().get(b, set())

    def live_nodes(self) -> set[Node]:
        return self.reachable_from([self.entry])


def _dominators(nodes, entry, preds) -> dict:
    # restrict to reachable nodes
    reach: set = set()
    succs: dict = {}
    for n in nodes:
        for p in preds(n):
            succs.setdefault(p, []).append(n)
    work = [entry]
    while work:
        n = work.pop()
        if n in reach:
            continue
        reach.add(n)
        work.extend(succs.get(n, []))
    order = [n for n in nodes if n in reach]
    full = set(order)
    dom = {n: set(full) for n in order}
    dom[entry] = {entry}
    changed = True
    while changed:
        changed = False
        for n in order:
            if n is entry:
                continue
            ps = [p for p in preds(n) if p in reach]
            if not ps:
                continue
            new = set.intersection(*(dom[p] for p in ps)) | {n}
            if new != dom[n]:
                dom[n] = new
                changed = True
    return dom


def cfg_of(repo: Repo, func: Func) -> CFG:
    cache = repo.__dict__.setdefault("_cfg_cache", {})
    c = cache.get(func.qualname)
    if c is None or c.func is not func:
        c = CFG(repo, func)
        cache[func.qualname] = c
    return c
