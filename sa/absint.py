"""E6 - a small forking abstract interpreter over function bodies.

Used by C07.4 to interpret the SciPy plug-in's request/cache protocol over a
finite domain: booleans, None, *points* (which x a vector denotes), *tagged
arrays* (which quantity at which point an array holds), symbolic configuration
reads (named atoms whose truth value is fixed per explored scenario) and Top.

``eval``/``exec`` return *lists* of outcomes: unknown conditions fork.
Anything outside the supported vocabulary raises AnalysisError (exit 2): the
interpreter never guesses.
"""

from __future__ import annotations

import ast
from dataclasses import dataclass, field, replace
from typing import Any, Callable

from .model import AnalysisError, Cls, Func, Repo, dotted


class _Top:
    def __repr__(self) -> str:
        return "Top"


TOP = _Top()


@dataclass(frozen=True)
class Pt:
    """A variables vector: which abstract point it is."""

    name: str


@dataclass(frozen=True)
class Arr:
    """An array value: the set of provenance tags of its content."""

    tags: frozenset = frozenset()

    def __repr__(self) -> str:
        return "Arr{" + ",".join(sorted(map(str, self.tags))) + "}"


@dataclass(frozen=True)
class Sym:
    """A symbolic read that is constant during a scenario (configuration).
    ``nonnull``: known not to be None (a module-level object, an enum member)."""

    text: str
    nonnull: bool = False


@dataclass(frozen=True)
class ExcVal:
    """An exception object: class and constructor arguments."""

    cls: str
    args: tuple = ()
    kwargs: tuple = ()

    def get(self, name: str, default=None):
        return dict(self.kwargs).get(name, default)


@dataclass(frozen=True)
class Raised:
    """Result of an expression whose evaluation raised (only with ``track_raises``)."""

    exc: ExcVal


@dataclass(frozen=True)
class Obj:
    name: str  # key into State.heap
    cls: str  # qualified class name


@dataclass(frozen=True)
class Bound:
    func: str  # qualified function name
    self_obj: Any
    kwargs: tuple = ()


@dataclass
class State:
    heap: dict  # obj name -> {field: value}
    atoms: dict  # atom text -> bool
    events: tuple = ()
    lists: dict = field(default_factory=dict)  # list id -> tuple of values

    def copy(self) -> "State":
        return State({k: dict(v) for k, v in self.heap.items()}, dict(self.atoms), self.events, dict(self.lists))

    def key(self):
        return (
            tuple(sorted((o, tuple(sorted((f, repr(v)) for f, v in fs.items()))) for o, fs in self.heap.items())),
            tuple(sorted(self.atoms.items())),
        )


def _walk_own(node):
    """ast.walk that does not descend into nested function / class definitions"""
    stack = [node]
    while stack:
        x = stack.pop()
        yield x
        for c in ast.iter_child_nodes(x):
            if not isinstance(c, (ast.FunctionDef, ast.AsyncFunctionDef, ast.Lambda, ast.ClassDef)):
                stack.append(c)


@dataclass(frozen=True)
class ListRef:
    id: int


def join(*vals) -> Any:
    tags: set = set()
    for v in vals:
        if isinstance(v, Arr):
            tags |= v.tags
        elif isinstance(v, Pt):
            tags.add(("pt", v.name))
        elif isinstance(v, (tuple, list)):
            j = join(*v)
            if isinstance(j, Arr):
                tags |= j.tags
    return Arr(frozenset(tags))


class NTuple(tuple):
    """A NamedTuple value: a tuple plus its field names."""

    def __new__(cls, items, fields):
        self = super().__new__(cls, items)
        self.fields = tuple(fields)
        return self


class Interp:
    def __init__(self, repo: Repo, hooks: "Hooks") -> None:
        self.repo = repo
        self.hooks = hooks
        self._list_counter = 0
        self.max_depth = 12
        #: legacy (False): a path that raises simply ends.  True: it is an outcome with
        #: flow "raise" and the exception value; try/except is interpreted.
        self.track_raises = False

    # ----------------------------------------------------------- conditions
    def truth(self, v, st: State, text: str) -> list[tuple[State, bool]]:
        if v is True or v is False:
            return [(st, v)]
        if v is None:
            return [(st, False)]
        if isinstance(v, (Arr, Pt, Obj, Bound)):
            return [(st, True)]
        if isinstance(v, ListRef):
            return [(st, bool(st.lists.get(v.id, ())))]
        if isinstance(v, (int, float, str, tuple)):
            return [(st, bool(v))]
        if isinstance(v, Sym):
            return self.atom(v.text, st)
        # Top: non-persistent fork
        return [(st, True), (st.copy(), False)]

    def atom(self, text: str, st: State) -> list[tuple[State, bool]]:
        if text in st.atoms:
            return [(st, st.atoms[text])]
        out = []
        for b in (True, False):
            s2 = st.copy()
            s2.atoms[text] = b
            out.append((s2, b))
        return out

    # ---------------------------------------------------------- expressions
    def _ev(self, e, env, st, func, depth, out):
        """Sub-evaluation: yields the normal (state, value) outcomes; outcomes that raised
        are appended to ``out`` (they are results of the enclosing expression as well)."""
        for s1, v in self.eval(e, env, st, func, depth):
            if isinstance(v, Raised):
                out.append((s1, v))
            else:
                yield s1, v

    def eval(self, e: ast.AST, env: dict, st: State, func: Func, depth: int) -> list[tuple[State, Any]]:
        if isinstance(e, ast.Constant):
            return [(st, e.value)]
        if isinstance(e, ast.Name):
            if e.id in env:
                return [(st, env[e.id])]
            q = self.repo.resolve_in_module(func.module, e.id)
            if q is not None:
                return [(st, Sym(q, True))]
            return [(st, Sym(e.id))]
        if isinstance(e, ast.Attribute):
            out = []
            for s1, base in self._ev(e.value, env, st, func, depth, out):
                out += self.getattr(base, e.attr, s1, func, depth)
            return out
        if isinstance(e, ast.BoolOp):
            return self._boolop(e, env, st, func, depth)
        if isinstance(e, ast.UnaryOp):
            out = []
            for s1, v in self._ev(e.operand, env, st, func, depth, out):
                if isinstance(e.op, ast.Not):
                    for s2, b in self.truth(v, s1, ""):
                        out.append((s2, not b))
                elif isinstance(v, (Arr, Pt)):
                    out.append((s1, join(v)))
                else:
                    out.append((s1, TOP))
            return out
        if isinstance(e, ast.Compare):
            return self._compare(e, env, st, func, depth)
        if isinstance(e, ast.IfExp):
            out = []
            for s1, c in self._ev(e.test, env, st, func, depth, out):
                for s2, b in self.truth(c, s1, ""):
                    out += self.eval(e.body if b else e.orelse, env, s2, func, depth)
            return out
        if isinstance(e, ast.Tuple):
            return self._seq(e.elts, env, st, func, depth, tuple)
        if isinstance(e, ast.List):
            out = []
            for s1, vals in self._seq(e.elts, env, st, func, depth, tuple):
                if isinstance(vals, Raised):
                    out.append((s1, vals))
                    continue
                self._list_counter += 1
                s2 = s1.copy()
                s2.lists[self._list_counter] = tuple(vals)
                out.append((s2, ListRef(self._list_counter)))
            return out
        if isinstance(e, ast.Subscript):
            out = []
            for s1, base in self._ev(e.value, env, st, func, depth, out):
                if isinstance(base, tuple) and isinstance(e.slice, ast.Constant) and isinstance(e.slice.value, int) and -len(base) <= e.slice.value < len(base):
                    out.append((s1, base[e.slice.value]))
                elif isinstance(base, ListRef) and isinstance(e.slice, ast.Constant) and isinstance(e.slice.value, int) and -len(s1.lists.get(base.id, ())) <= e.slice.value < len(s1.lists.get(base.id, ())):
                    out.append((s1, s1.lists[base.id][e.slice.value]))
                elif isinstance(base, (Arr, Pt)):
                    out.append((s1, join(base)))
                else:
                    out.append((s1, TOP))
            return out
        if isinstance(e, ast.BinOp):
            out = []
            for s1, l in self._ev(e.left, env, st, func, depth, out):
                for s2, r in self._ev(e.right, env, s1, func, depth, out):
                    if isinstance(l, (Arr, Pt)) or isinstance(r, (Arr, Pt)):
                        out.append((s2, join(l, r)))
                    elif isinstance(l, Sym) or isinstance(r, Sym):
                        lt = l.text if isinstance(l, Sym) else repr(l)
                        rt = r.text if isinstance(r, Sym) else repr(r)
                        out.append((s2, Sym(f"({lt} {type(e.op).__name__} {rt})")))
                    else:
                        out.append((s2, TOP))
            return out
        if isinstance(e, ast.Call):
            return self._call(e, env, st, func, depth)
        if isinstance(e, ast.Dict):
            return [(st, TOP)]
        if isinstance(e, ast.JoinedStr):
            return [(st, TOP)]
        if isinstance(e, (ast.GeneratorExp, ast.ListComp, ast.SetComp)):
            return self._comprehension(e, env, st, func, depth)
        if isinstance(e, ast.Set):
            return self._seq(e.elts, env, st, func, depth, tuple)
        if isinstance(e, ast.Lambda):
            f2 = getattr(e, "_func", None)
            return [(st, Bound(f2.qualname, None) if f2 is not None else TOP)]
        if isinstance(e, ast.Yield) and isinstance(env.get("__yields__"), ListRef):
            # a generator function is interpreted eagerly: its yields are collected in order (see call_func)
            outs = []
            for s1, v in (self.eval(e.value, env, st, func, depth) if e.value is not None else [(st, None)]):
                if isinstance(v, Raised):
                    outs.append((s1, v))
                    continue
                s2 = s1.copy()
                yid = env["__yields__"].id
                s2.lists[yid] = s2.lists.get(yid, ()) + (v,)
                outs.append((s2, None))
            return outs
        raise AnalysisError(f"abstract interpreter: unsupported expression `{ast.unparse(e)[:60]}` in {func.qualname}")

    def _seq(self, elts, env, st, func, depth, ctor):
        outs = [(st, [])]
        raised = []
        for x in elts:
            nxt = []
            for s1, acc in outs:
                if isinstance(x, ast.Starred):
                    # `(idx, *entry)` with a concrete tuple / list: its items
                    for s2, v in self._ev(x.value, env, s1, func, depth, raised):
                        items = self._concrete_items(v, s2)
                        if items is None:
                            raise AnalysisError(f"abstract interpreter: starred expression over a non-concrete value at {func.where(x)}")
                        nxt.append((s2, acc + list(items)))
                    continue
                for s2, v in self._ev(x, env, s1, func, depth, raised):
                    nxt.append((s2, acc + [v]))
            outs = nxt
        return [(s, ctor(a)) for s, a in outs] + raised

    def _concrete_items(self, it, st: State):
        if isinstance(it, ListRef):
            return st.lists.get(it.id, ())
        if isinstance(it, (tuple, list)) and not (it and it[0] == "shape"):
            return tuple(it)
        return None

    def _comprehension(self, e, env, st, func, depth):
        """Comprehensions over concrete iterables: a tuple (generator / set) or a new list."""
        results: list = []
        raised: list = []

        def rec(gi: int, env1: dict, s1: State, acc: tuple):
            if gi == len(e.generators):
                for s2, v in self._ev(e.elt, env1, s1, func, depth, raised):
                    yield s2, acc + (v,), env1
                return
            g = e.generators[gi]
            for s2, it in self._ev(g.iter, env1, s1, func, depth, raised):
                items = self._concrete_items(it, s2)
                if items is None:
                    raise AnalysisError(f"abstract interpreter: comprehension over a non-concrete iterable at {func.where(e)}")
                cur = [(s2, acc)]
                for item in items:
                    nxt = []
                    for s3, acc3 in cur:
                        s4, env4 = self._assign(g.target, item, dict(env1), s3, func, depth)
                        conds = [(s4, True)]
                        for c in g.ifs:
                            c2 = []
                            for s5, okc in conds:
                                if not okc:
                                    c2.append((s5, False))
                                    continue
                                for s6, cv in self._ev(c, env4, s5, func, depth, raised):
                                    for s7, b in self.truth(cv, s6, ""):
                                        c2.append((s7, b))
                            conds = c2
                        for s5, okc in conds:
                            if not okc:
                                nxt.append((s5, acc3))
                            else:
                                for s6, acc6, _e6 in rec(gi + 1, env4, s5, acc3):
                                    nxt.append((s6, acc6))
                    cur = nxt
                for s3, acc3 in cur:
                    yield s3, acc3, env1

        for s2, acc, _env in rec(0, env, st, ()):
            if isinstance(e, ast.ListComp):
                self._list_counter += 1
                s3 = s2.copy()
                s3.lists[self._list_counter] = tuple(acc)
                results.append((s3, ListRef(self._list_counter)))
            else:
                results.append((s2, tuple(acc)))
        return results + raised

    def _boolop(self, e: ast.BoolOp, env, st, func, depth):
        is_and = isinstance(e.op, ast.And)
        outs = []
        work = [(st, 0)]
        while work:
            s, i = work.pop()
            for s1, v in self._ev(e.values[i], env, s, func, depth, outs):
                if i == len(e.values) - 1:
                    outs.append((s1, v))
                    continue
                for s2, b in self.truth(v, s1, ""):
                    if b == is_and:
                        work.append((s2, i + 1))
                    else:
                        outs.append((s2, v if not isinstance(v, (Sym, _Top)) else b))
        return outs

    def _compare(self, e: ast.Compare, env, st, func, depth):
        if len(e.ops) != 1:
            # a < b < c  ==  (a < b) and (b < c)
            parts = []
            left = e.left
            for op_, right in zip(e.ops, e.comparators):
                parts.append(ast.copy_location(ast.Compare(left=left, ops=[op_], comparators=[right]), e))
                left = right
            return self._boolop(ast.copy_location(ast.BoolOp(op=ast.And(), values=parts), e), env, st, func, depth)
        op = e.ops[0]
        out = []
        for s1, l in self._ev(e.left, env, st, func, depth, out):
            for s2, r in self._ev(e.comparators[0], env, s1, func, depth, out):
                if isinstance(op, (ast.Is, ast.IsNot)) and r is None:
                    if isinstance(l, Sym) and l.nonnull:
                        out.append((s2, not isinstance(op, ast.Is)))
                    elif isinstance(l, Sym):
                        for s3, b in self.atom(f"{l.text} is None", s2):
                            out.append((s3, b if isinstance(op, ast.Is) else not b))
                    elif isinstance(l, _Top):
                        out += [(s2, True), (s2.copy(), False)]
                    else:
                        res = l is None
                        out.append((s2, res if isinstance(op, ast.Is) else not res))
                elif isinstance(op, (ast.In, ast.NotIn)) and isinstance(l, Sym) and isinstance(r, Sym):
                    for s3, b in self.atom(f"{l.text} in {r.text}", s2):
                        out.append((s3, b if isinstance(op, ast.In) else not b))
                elif isinstance(op, (ast.Eq, ast.NotEq)) and isinstance(l, tuple) and isinstance(r, tuple) and l and r and l[0] == "shape" and r[0] == "shape":
                    if l == r:
                        out.append((s2, isinstance(op, ast.Eq)))
                    else:
                        out += [(s2, True), (s2.copy(), False)]
                elif isinstance(op, (ast.Eq, ast.NotEq)) and isinstance(l, Sym) and isinstance(r, (str, Sym)):
                    rt = r if isinstance(r, str) else r.text
                    for s3, b in self.atom(f"{l.text} == {rt!r}", s2):
                        out.append((s3, b if isinstance(op, ast.Eq) else not b))
                elif type(l) in (int, float, bool, str) and type(r) in (int, float, bool, str):
                    try:
                        val = {
                            ast.Eq: l == r, ast.NotEq: l != r, ast.Lt: l < r, ast.LtE: l <= r, ast.Gt: l > r, ast.GtE: l >= r,
                        }[type(op)]
                        out.append((s2, val))
                    except Exception:  # noqa: BLE001
                        out.append((s2, TOP))
                elif isinstance(l, Sym) or isinstance(r, Sym):
                    lt = l.text if isinstance(l, Sym) else repr(l)
                    rt = r.text if isinstance(r, Sym) else repr(r)
                    for s3, b in self.atom(f"{lt} {type(op).__name__} {rt}", s2):
                        out.append((s3, b))
                else:
                    out.append((s2, TOP))
        return out

    # ------------------------------------------------------------ attributes
    def getattr(self, base, name: str, st: State, func: Func, depth: int) -> list[tuple[State, Any]]:
        if isinstance(base, NTuple) and name in base.fields:
            return [(st, base[base.fields.index(name)])]
        if isinstance(base, Obj):
            fields = st.heap.setdefault(base.name, {})
            if name in fields:
                return [(st, fields[name])]
            c = self.repo.classes.get(base.cls)
            if c is not None:
                m = self.repo.find_method(c, name)
                if m is not None:
                    if m.is_property:
                        return self.call_func(m, [base], {}, st, depth + 1)
                    return [(st, Bound(m.qualname, base))]
            return [(st, Sym(f"{base.name}.{name}"))]
        if isinstance(base, Sym):
            # members of a package class (enum members, class attributes) are objects, not None
            return [(st, Sym(f"{base.text}.{name}", base.nonnull and base.text in self.repo.classes))]
        if isinstance(base, ExcVal):
            v = base.get(name, TOP)
            return [(st, v)]
        if isinstance(base, Pt):
            if name == "shape":
                return [(st, ("shape", base.name))]
            if name == "T":
                return [(st, base)]
            if name == "ndim":
                return [(st, self.hooks.ndim(base, st))]
            if name == "size":
                return [(st, self.hooks.size(base, st))]
            return [(st, Bound(f"<pt>.{name}", base))]
        if isinstance(base, Arr):
            if name in ("T",):
                return [(st, base)]
            if name in ("shape", "ndim", "size"):
                return [(st, TOP)]
            return [(st, Bound(f"<arr>.{name}", base))]
        if isinstance(base, ListRef):
            return [(st, Bound(f"<list>.{name}", base))]
        if isinstance(base, _Top):
            return [(st, TOP)]
        return [(st, TOP)]

    # ------------------------------------------------------------------ calls
    def _call(self, e: ast.Call, env, st, func, depth):
        out = []
        if isinstance(e.func, ast.Name) and e.func.id == "isinstance" and "isinstance" not in env and len(e.args) == 2 and not e.keywords:
            r = self._isinstance(e, env, st, func, depth)
            if r is not None:
                return r
        for s1, fn in self._ev(e.func, env, st, func, depth, out):
            for s2, args in self._seq([a for a in e.args], env, s1, func, depth, list):
                if isinstance(args, Raised):
                    out.append((s2, args))
                    continue
                kouts = [(s2, {})]
                for kw in e.keywords:
                    nxt = []
                    for s3, acc in kouts:
                        for s4, v in self._ev(kw.value, env, s3, func, depth, out):
                            d = dict(acc)
                            d[kw.arg] = v
                            nxt.append((s4, d))
                    kouts = nxt
                for s5, kwargs in kouts:
                    out += self.apply(fn, args, kwargs, s5, func, depth, e)
        return out

    def _class_quals(self, t: ast.AST, func: Func) -> list[str] | None:
        """Qualified names of the classes in an isinstance() class argument: C, (C, D), C | D."""
        if isinstance(t, ast.Tuple):
            out = []
            for x in t.elts:
                q = self._class_quals(x, func)
                if q is None:
                    return None
                out += q
            return out
        if isinstance(t, ast.BinOp) and isinstance(t.op, ast.BitOr):
            l, r = self._class_quals(t.left, func), self._class_quals(t.right, func)
            return None if l is None or r is None else l + r
        d = dotted(t)
        if d is None:
            return None
        return [self.repo.resolve_in_module(func.module, d) or d]

    def _isinstance(self, e: ast.Call, env, st, func, depth):
        quals = self._class_quals(e.args[1], func)
        if quals is None:
            return None
        out = []
        for s1, v in self._ev(e.args[0], env, st, func, depth, out):
            if isinstance(v, Obj) and v.cls in self.repo.classes:
                out.append((s1, any(v.cls == q or self.repo.is_subclass(v.cls, q) for q in quals)))
            elif isinstance(v, ExcVal):
                out.append((s1, any(v.cls == q or (v.cls in self.repo.classes and self.repo.is_subclass(v.cls, q)) for q in quals)))
            elif v is None or isinstance(v, (bool, int, float, str, tuple)):
                names = {"NoneType" if v is None else type(v).__name__}
                out.append((s1, any(q in names for q in quals)))
            elif isinstance(v, Sym):
                # one atom per class: the object is of that class or not
                work = [(s1, False, 0)]
                while work:
                    s2, acc, i = work.pop()
                    if acc or i == len(quals):
                        out.append((s2, acc))
                        continue
                    for s3, b in self.atom(f"isinstance({v.text}, {quals[i]})", s2):
                        work.append((s3, b, i + 1))
            else:
                return None
        return out

    def apply(self, fn, args, kwargs, st: State, func: Func, depth: int, node: ast.AST) -> list[tuple[State, Any]]:
        if isinstance(fn, Bound):
            if fn.func.startswith("<pt>.") or fn.func.startswith("<arr>."):
                name = fn.func.split(".", 1)[1]
                if name in ("copy", "transpose", "flatten", "ravel", "reshape", "astype", "squeeze"):
                    return [(st, fn.self_obj)]
                return [(st, join(fn.self_obj, *args))]
            if fn.func.startswith("<list>."):
                name = fn.func.split(".", 1)[1]
                if name == "append":
                    s2 = st.copy()
                    s2.lists[fn.self_obj.id] = s2.lists.get(fn.self_obj.id, ()) + (args[0],)
                    return [(s2, None)]
                raise AnalysisError(f"abstract interpreter: unsupported list method {name}")
            f2 = self.repo.funcs[fn.func]
            handled = self.hooks.method_call(self, f2, fn.self_obj, args, kwargs, st, depth)
            if handled is not None:
                return handled
            recv = [] if (f2.is_static or fn.self_obj is None) else [fn.self_obj]
            return self.call_func(f2, recv + list(args), dict(fn.kwargs) | kwargs, st, depth + 1)
        if isinstance(fn, Sym):
            if fn.text in ("any", "all") and len(args) == 1 and not kwargs:
                items = self._concrete_items(args[0], st)
                if items is not None:
                    return self._any_all(items, fn.text == "any", st)
            if fn.text in ("tuple", "list") and len(args) == 1 and self._concrete_items(args[0], st) is not None and isinstance(args[0], (tuple, ListRef)):
                items = self._concrete_items(args[0], st)
                if fn.text == "tuple":
                    return [(st, tuple(items))]
                self._list_counter += 1
                s2 = st.copy()
                s2.lists[self._list_counter] = tuple(items)
                return [(s2, ListRef(self._list_counter))]
            if fn.text == "bool" and len(args) == 1 and not kwargs:
                return [(s2, b) for s2, b in self.truth(args[0], st, "")]
            nt = self._namedtuple_fields(fn.text)
            if nt is not None:
                # constructing a NamedTuple of the package: a tuple whose components also answer to their field names
                given = dict(zip(nt, args))
                given.update(kwargs)
                if len(args) <= len(nt) and all(n_ in given for n_ in nt):
                    return [(st, NTuple(tuple(given[n_] for n_ in nt), tuple(nt)))]
            if self.track_raises and self._is_exception_class(fn.text):
                return [(st, ExcVal(fn.text, tuple(args), tuple(sorted(kwargs.items(), key=lambda kv: kv[0]))))]
            if getattr(self, "interpret_private", False):
                # a private module-level function of the package (a named piece of the caller): interpret its body
                f2 = self.repo.funcs.get(fn.text)
                if f2 is not None and f2.cls is None and f2.name.startswith("_") and not isinstance(f2.node, ast.Lambda) and depth < self.max_depth:
                    try:
                        return self.call_func(f2, list(args), dict(kwargs), st, depth + 1)
                    except AnalysisError:
                        pass
            return self.hooks.external_call(self, fn.text, args, kwargs, st, func, node)
        if isinstance(fn, _Top):
            return [(st, TOP)]
        raise AnalysisError(f"abstract interpreter: cannot call {fn!r} at {func.where(node)}")

    def _any_all(self, items, is_any: bool, st: State):
        out = []
        work = [(st, 0)]
        while work:
            s1, i = work.pop()
            if i == len(items):
                out.append((s1, not is_any))
                continue
            for s2, b in self.truth(items[i], s1, ""):
                if b == is_any:
                    out.append((s2, is_any))
                else:
                    work.append((s2, i + 1))
        return out

    def _namedtuple_fields(self, q: str):
        c = self.repo.classes.get(q)
        if c is not None and any(b.split(".")[-1] == "NamedTuple" for b in c.base_names):
            return list(c.fields)
        return None

    def _is_exception_class(self, q: str) -> bool:
        if q in self.repo.classes:
            seen = set()
            stack = [q]
            while stack:
                c = stack.pop()
                if c in seen:
                    continue
                seen.add(c)
                k = self.repo.classes.get(c)
                if k is None:
                    if c.split(".")[-1] in ("Exception", "BaseException") or c.split(".")[-1].endswith("Error"):
                        return True
                    continue
                stack += list(k.base_names)
            return False
        import builtins

        obj = getattr(builtins, q, None)
        return isinstance(obj, type) and issubclass(obj, BaseException)

    def call_func(self, f: Func, args: list, kwargs: dict, st: State, depth: int) -> list[tuple[State, Any]]:
        if depth > self.max_depth:
            raise AnalysisError(f"abstract interpreter: call depth exceeded at {f.qualname}")
        a = f.node.args
        pos = [x.arg for x in a.posonlyargs + a.args]
        env: dict = {}
        for p, v in zip(pos, args):
            env[p] = v
        for k, v in kwargs.items():
            env[k] = v
        # defaults
        defaults = a.defaults
        for p, d in zip(pos[len(pos) - len(defaults):], defaults):
            if p not in env:
                env[p] = ast.literal_eval(d) if isinstance(d, ast.Constant) else TOP
        for p, d in zip(a.kwonlyargs, a.kw_defaults):
            if p.arg not in env:
                env[p.arg] = d.value if isinstance(d, ast.Constant) else TOP
        is_gen = any(isinstance(x, (ast.Yield, ast.YieldFrom)) for st_ in f.body for x in _walk_own(st_))
        if is_gen:
            # the generator's values, in order, as a list (finite: loops of the interpreted functions are over concrete
            # sequences); consumers iterate it like any other concrete sequence
            self._list_counter += 1
            st = st.copy()
            st.lists[self._list_counter] = ()
            env["__yields__"] = ListRef(self._list_counter)
        outs = []
        for s, flow, val, _env in self.exec_block(f.body, env, st, f, depth):
            if flow == "raise":
                outs.append((s, Raised(val)))
            elif is_gen:
                outs.append((s, env["__yields__"]))
            else:
                outs.append((s, val if flow == "return" else None))
        return outs

    # ------------------------------------------------------------- statements
    def exec_block(self, stmts, env: dict, st: State, func: Func, depth: int):
        """-> list of (state, flow, value, env) with flow in next/return."""
        outs = [(st, "next", None, env)]
        for s in stmts:
            nxt = []
            for s1, flow, val, env1 in outs:
                if flow != "next":
                    nxt.append((s1, flow, val, env1))
                    continue
                nxt += self.exec_stmt(s, env1, s1, func, depth)
            outs = self._dedupe(nxt)
            if len(outs) > 4096:
                raise AnalysisError("abstract interpreter: too many paths")
        return outs

    @staticmethod
    def _dedupe(outs):
        """Merge outcomes that are indistinguishable (same heap, atoms, events,
        lists, control flow, value and environment): forks on conditions that
        did not matter re-join here."""
        if len(outs) < 2:
            return outs
        seen = {}
        for o in outs:
            s, flow, val, env = o
            try:
                k = (s.key(), s.events, tuple(sorted((i, repr(v)) for i, v in s.lists.items())), flow, repr(val),
                     tuple(sorted((n, repr(v)) for n, v in env.items())))
            except Exception:  # noqa: BLE001
                k = id(o)
            seen.setdefault(k, o)
        return list(seen.values())

    def exec_stmt(self, s: ast.stmt, env: dict, st: State, func: Func, depth: int):
        if isinstance(s, ast.Expr):
            if isinstance(s.value, ast.Constant):
                return [(st, "next", None, env)]
            return [(s1, "raise", _v.exc, env) if isinstance(_v, Raised) else (s1, "next", None, env) for s1, _v in self.eval(s.value, env, st, func, depth)]
        if isinstance(s, (ast.Assign, ast.AnnAssign)):
            if getattr(s, "value", None) is None:
                return [(st, "next", None, env)]
            targets = s.targets if isinstance(s, ast.Assign) else [s.target]
            out = []
            for s1, v in self.eval(s.value, env, st, func, depth):
                if isinstance(v, Raised):
                    out.append((s1, "raise", v.exc, env))
                    continue
                env2 = dict(env)
                s2 = s1
                for t in targets:
                    s2, env2 = self._assign(t, v, env2, s2, func, depth)
                out.append((s2, "next", None, env2))
            return out
        if isinstance(s, ast.AugAssign):
            out = []
            for s1, v in self.eval(s.value, env, st, func, depth):
                if isinstance(v, Raised):
                    out.append((s1, "raise", v.exc, env))
                    continue
                cur = self.eval(s.target, env, s1, func, depth)
                for s2, c in cur:
                    nv = join(c, v) if isinstance(c, (Arr, Pt)) or isinstance(v, (Arr, Pt)) else TOP
                    s3, env2 = self._assign(s.target, nv, dict(env), s2, func, depth)
                    out.append((s3, "next", None, env2))
            return out
        if isinstance(s, ast.Return):
            if s.value is None:
                return [(st, "return", None, env)]
            return [(s1, "raise", v.exc, env) if isinstance(v, Raised) else (s1, "return", v, env) for s1, v in self.eval(s.value, env, st, func, depth)]
        if isinstance(s, ast.If):
            out = []
            for s1, c in self.eval(s.test, env, st, func, depth):
                if isinstance(c, Raised):
                    out.append((s1, "raise", c.exc, env))
                    continue
                for s2, b in self.truth(c, s1, ""):
                    out += self.exec_block(s.body if b else s.orelse, env, s2, func, depth)
            return out
        if isinstance(s, ast.Assert):
            out = []
            for s1, c in self.eval(s.test, env, st, func, depth):
                if isinstance(c, Raised):
                    out.append((s1, "raise", c.exc, env))
                    continue
                for s2, b in self.truth(c, s1, ""):
                    if b:
                        out.append((s2, "next", None, env))
                    elif not isinstance(c, (Sym, _Top)):
                        # a concretely failing assertion: AssertionError escapes
                        self.hooks.assertion_failed(s, func, s2)
            return out
        if isinstance(s, ast.Pass):
            return [(st, "next", None, env)]
        if isinstance(s, ast.For):
            out = []
            for s1, it in self.eval(s.iter, env, st, func, depth):
                if isinstance(it, Raised):
                    out.append((s1, "raise", it.exc, env))
                    continue
                if isinstance(it, ListRef):
                    items = s1.lists.get(it.id, ())
                elif isinstance(it, (tuple, list)):
                    items = it
                else:
                    raise AnalysisError(f"abstract interpreter: loop over non-concrete iterable at {func.where(s)}")
                cur = [(s1, "next", None, env)]
                for item in items:
                    nxt = []
                    for s2, flow, val, env2 in cur:
                        if flow != "next":
                            nxt.append((s2, flow, val, env2))
                            continue
                        s3, env3 = self._assign(s.target, item, dict(env2), s2, func, depth)
                        for o in self.exec_block(s.body, env3, s3, func, depth):
                            # `continue` ends this iteration only
                            nxt.append((o[0], "next", None, o[3]) if o[1] == "continue" else o)
                    cur = nxt
                done = []
                for s2, flow, val, env2 in cur:
                    if flow == "break":
                        done.append((s2, "next", None, env2))
                    elif flow == "next" and s.orelse:
                        done += self.exec_block(s.orelse, env2, s2, func, depth)
                    else:
                        done.append((s2, flow, val, env2))
                out += done
            return out
        if isinstance(s, ast.Break):
            return [(st, "break", None, env)]
        if isinstance(s, ast.Continue):
            return [(st, "continue", None, env)]
        if isinstance(s, (ast.With, ast.AsyncWith)):
            cur = [(st, env)]
            raised = []
            for item in s.items:
                nxt = []
                for s1, env1 in cur:
                    for s2, v in self._ev(item.context_expr, env1, s1, func, depth, raised):
                        if item.optional_vars is not None:
                            s3, env3 = self._assign(item.optional_vars, v if not isinstance(v, (Arr, Pt)) else v, dict(env1), s2, func, depth)
                            nxt.append((s3, env3))
                        else:
                            nxt.append((s2, env1))
                cur = nxt
            out = [(s1, "raise", v.exc, env) for s1, v in raised]
            for s1, env1 in cur:
                out += self.exec_block(s.body, env1, s1, func, depth)
            return out
        if isinstance(s, ast.Try):
            return self._exec_try(s, env, st, func, depth)
        if isinstance(s, ast.Match):
            return self._exec_match(s, env, st, func, depth)
        if isinstance(s, (ast.FunctionDef,)):
            env2 = dict(env)
            f2 = getattr(s, "_func", None)
            env2[s.name] = Bound(f2.qualname, None) if f2 is not None else TOP
            return [(st, "next", None, env2)]
        if isinstance(s, ast.Raise):
            if not self.track_raises:
                return []  # the path ends with an exception
            if s.exc is None:
                return [(st, "raise", env.get("<active exception>", ExcVal("?")), env)]
            out = []
            for s1, v in self.eval(s.exc, env, st, func, depth):
                if isinstance(v, Raised):
                    out.append((s1, "raise", v.exc, env))
                elif isinstance(v, ExcVal):
                    out.append((s1, "raise", v, env))
                elif isinstance(v, Sym):
                    out.append((s1, "raise", ExcVal(v.text), env))
                else:
                    d = dotted(s.exc.func if isinstance(s.exc, ast.Call) else s.exc) or "?"
                    out.append((s1, "raise", ExcVal(self.repo.resolve_in_module(func.module, d) or d), env))
            return out
        raise AnalysisError(f"abstract interpreter: unsupported statement `{ast.unparse(s)[:60]}` in {func.qualname}")

    def _exc_matches(self, exc: ExcVal, handler: ast.ExceptHandler, func: Func):
        """True / False / None (unknown) whether ``handler`` catches ``exc``."""
        if handler.type is None:
            return True
        quals = self._class_quals(handler.type, func)
        if quals is None:
            return None
        for q in quals:
            if q.split(".")[-1] in ("BaseException", "Exception"):
                return True
            if exc.cls == q or (exc.cls in self.repo.classes and self.repo.is_subclass(exc.cls, q)):
                return True
        if exc.cls == "?":
            return None
        return False

    def _exec_try(self, s: ast.Try, env, st, func, depth):
        outs = []
        for s1, flow, val, env1 in self.exec_block(s.body, env, st, func, depth):
            if flow == "raise":
                handled = False
                for h in s.handlers:
                    m = self._exc_matches(val, h, func)
                    if m is None:
                        raise AnalysisError(f"abstract interpreter: cannot decide whether `except {ast.unparse(h.type) if h.type else ''}` catches {val.cls} at {func.where(h)}")
                    if m:
                        env2 = dict(env1)
                        if h.name:
                            env2[h.name] = val
                        env2["<active exception>"] = val
                        for o in self.exec_block(h.body, env2, s1, func, depth):
                            e3 = dict(o[3])
                            e3.pop("<active exception>", None)
                            outs.append((o[0], o[1], o[2], e3))
                        handled = True
                        break
                if not handled:
                    outs.append((s1, flow, val, env1))
            elif flow == "next" and s.orelse:
                outs += self.exec_block(s.orelse, env1, s1, func, depth)
            else:
                outs.append((s1, flow, val, env1))
        if s.finalbody:
            fin = []
            for s1, flow, val, env1 in outs:
                for s2, f2, v2, env2 in self.exec_block(s.finalbody, env1, s1, func, depth):
                    fin.append((s2, flow, val, env2) if f2 == "next" else (s2, f2, v2, env2))
            outs = fin
        return outs

    def _exec_match(self, s: ast.Match, env, st, func, depth):
        out = []
        for s1, subj in self.eval(s.subject, env, st, func, depth):
            if isinstance(subj, Raised):
                out.append((s1, "raise", subj.exc, env))
                continue
            pending = [(s1, env)]
            for case in s.cases:
                nxt = []
                for s2, env2 in pending:
                    for s3, matched, env3 in self._match_pattern(case.pattern, subj, env2, s2, func, depth):
                        if matched and case.guard is not None:
                            for s4, g in self.eval(case.guard, env3, s3, func, depth):
                                for s5, b in self.truth(g, s4, ""):
                                    if b:
                                        out += self.exec_block(case.body, env3, s5, func, depth)
                                    else:
                                        nxt.append((s5, env2))
                        elif matched:
                            out += self.exec_block(case.body, env3, s3, func, depth)
                        else:
                            nxt.append((s3, env2))
                pending = nxt
            for s2, env2 in pending:
                out.append((s2, "next", None, env2))
        return out

    def _match_pattern(self, p: ast.AST, subj, env, st, func, depth):
        """-> [(state, matched, env)]"""
        if isinstance(p, ast.MatchAs):
            if p.pattern is None:
                env2 = dict(env)
                if p.name:
                    env2[p.name] = subj
                return [(st, True, env2)]
            outs = []
            for s1, m, e1 in self._match_pattern(p.pattern, subj, env, st, func, depth):
                if m and p.name:
                    e1 = dict(e1)
                    e1[p.name] = subj
                outs.append((s1, m, e1))
            return outs
        if isinstance(p, ast.MatchOr):
            outs = []
            pending = [st]
            for alt in p.patterns:
                nxt = []
                for s1 in pending:
                    for s2, m, e2 in self._match_pattern(alt, subj, env, s1, func, depth):
                        if m:
                            outs.append((s2, True, e2))
                        else:
                            nxt.append(s2)
                pending = nxt
            return outs + [(s1, False, env) for s1 in pending]
        if isinstance(p, (ast.MatchValue, ast.MatchSingleton)):
            outs = []
            vals = [(st, p.value)] if isinstance(p, ast.MatchSingleton) else self.eval(p.value, env, st, func, depth)
            for s1, v in vals:
                if isinstance(subj, Sym) and not isinstance(v, Sym) or isinstance(subj, Sym) and isinstance(v, Sym):
                    rt = v.text if isinstance(v, Sym) else v
                    if v is None:
                        key = f"{subj.text} is None"
                        if subj.nonnull:
                            outs.append((s1, False, env))
                            continue
                    else:
                        key = f"{subj.text} == {rt!r}"
                    for s2, b in self.atom(key, s1):
                        outs.append((s2, b, env))
                elif isinstance(subj, _Top):
                    outs += [(s1, True, env), (s1.copy(), False, env)]
                elif isinstance(v, Sym):
                    outs += [(s1, True, env), (s1.copy(), False, env)] if not isinstance(subj, (type(None), bool, int, float, str)) else [(s1, False, env)]
                else:
                    outs.append((s1, subj == v and type(subj) is type(v) or (subj is v), env))
            return outs
        if isinstance(p, ast.MatchClass) and not p.patterns and not p.kwd_patterns:
            quals = self._class_quals(p.cls, func)
            if quals is not None:
                if isinstance(subj, Obj) and subj.cls in self.repo.classes:
                    return [(st, any(subj.cls == q or self.repo.is_subclass(subj.cls, q) for q in quals), env)]
                if isinstance(subj, Sym):
                    return [(s2, b, env) for s2, b in self.atom(f"isinstance({subj.text}, {quals[0]})", st)]
        if isinstance(p, ast.MatchClass) and not p.patterns and p.kwd_patterns:
            # `Cls(attr=<pattern>, ...)`: isinstance(subject, Cls) and every attribute matches its sub-pattern
            quals = self._class_quals(p.cls, func)
            if quals is not None:
                if isinstance(subj, Obj) and subj.cls in self.repo.classes:
                    first = [(st, any(subj.cls == q or self.repo.is_subclass(subj.cls, q) for q in quals))]
                elif isinstance(subj, Sym):
                    first = list(self.atom(f"isinstance({subj.text}, {quals[0]})", st))
                elif isinstance(subj, _Top):
                    first = [(st, True), (st.copy(), False)]
                else:
                    first = [(st, False)]
                outs = []
                for s1, isinst in first:
                    if not isinst:
                        outs.append((s1, False, env))
                        continue
                    pending = [(s1, env)]
                    for attr, sub in zip(p.kwd_attrs, p.kwd_patterns):
                        nxt = []
                        for s2, e2 in pending:
                            if isinstance(subj, Obj):
                                val = s2.heap.get(subj.name, {}).get(attr, TOP)
                            elif isinstance(subj, Sym):
                                val = Sym(f"{subj.text}.{attr}")
                            else:
                                val = TOP
                            for s3, m, e3 in self._match_pattern(sub, val, e2, s2, func, depth):
                                if m:
                                    nxt.append((s3, e3))
                                else:
                                    outs.append((s3, False, env))
                        pending = nxt
                    outs += [(s2, True, e2) for s2, e2 in pending]
                return outs
        raise AnalysisError(f"abstract interpreter: unsupported match pattern `{ast.unparse(p)[:60]}` in {func.qualname}")

    def _assign(self, t: ast.AST, v, env: dict, st: State, func: Func, depth: int):
        if isinstance(t, ast.Name):
            env[t.id] = v
            return st, env
        if isinstance(t, (ast.Tuple, ast.List)):
            if isinstance(v, tuple) and len(v) == len(t.elts):
                for x, y in zip(t.elts, v):
                    st, env = self._assign(x, y, env, st, func, depth)
            else:
                for x in t.elts:
                    st, env = self._assign(x.value if isinstance(x, ast.Starred) else x, TOP if not isinstance(v, (Arr, Pt)) else join(v), env, st, func, depth)
            return st, env
        if isinstance(t, ast.Attribute):
            bases = self.eval(t.value, env, st, func, depth)
            if len(bases) != 1:
                raise AnalysisError("abstract interpreter: forking store target")
            s1, base = bases[0]
            if isinstance(base, Obj):
                s2 = s1.copy()
                s2.heap.setdefault(base.name, {})[t.attr] = v
                return s2, env
            return s1, env
        if isinstance(t, ast.Subscript):
            # content update: join tags into the stored array
            bases = self.eval(t.value, env, st, func, depth)
            if len(bases) == 1 and isinstance(t.value, (ast.Name, ast.Attribute)):
                s1, base = bases[0]
                if isinstance(base, (Arr, Pt)) or isinstance(v, (Arr, Pt)):
                    return self._assign(t.value, join(base, v), env, s1, func, depth)
                return s1, env
            return st, env
        raise AnalysisError(f"abstract interpreter: unsupported assignment target `{ast.unparse(t)}`")


class Hooks:
    """Domain modelling supplied by the rule."""

    def ndim(self, pt: Pt, st: State):
        return TOP

    def size(self, pt: Pt, st: State):
        return TOP

    def method_call(self, interp: Interp, f: Func, self_obj, args, kwargs, st: State, depth: int):
        return None

    def external_call(self, interp: Interp, text: str, args, kwargs, st: State, func: Func, node: ast.AST):
        return [(st, join(*args, *kwargs.values()))]

    def assertion_failed(self, node: ast.Assert, func: Func, st: State) -> None:
        pass
