"""E6 - a small forking abstract interpreter over function bodies.

Used by C07.4 to interpret the SciPy plug-in's request/cache protocol over a
finite domain: booleans, None, *points* (which x a vector denotes), *tagged
arrays* (which quantity at which point an array holds), symbolic configuration
reads (named atoms whose truth value is fixed per explored scenario) and Top.

``eval``/``exec`` return *lists* of outcomes: unknown conditions fork.
Anything outside the supported vocabulary raises AnalysisError (exit 2): the
interpreter never guesses.
"""

from __future__ import annotations

import ast
from dataclasses import dataclass, field, replace
from typing import Any, Callable

from .model import AnalysisError, Cls, Func, Repo, dotted


class _Top:
    def __repr__(self) -> str:
        return "Top"


TOP = _Top()


@dataclass(frozen=True)
class Pt:
    """A variables vector: which abstract point it is."""

    name: str


@dataclass(frozen=True)
class Arr:
    """An array value: the set of provenance tags of its content."""

    tags: frozenset = frozenset()

    def __repr__(self) -> str:
        return "Arr{" + ",".join(sorted(map(str, self.tags))) + "}"


@dataclass(frozen=True)
class Sym:
    """A symbolic read that is constant during a scenario (configuration)."""

    text: str


@dataclass(frozen=True)
class Obj:
    name: str  # key into State.heap
    cls: str  # qualified class name


@dataclass(frozen=True)
class Bound:
    func: str  # qualified function name
    self_obj: Any
    kwargs: tuple = ()


@dataclass
class State:
    heap: dict  # obj name -> {field: value}
    atoms: dict  # atom text -> bool
    events: tuple = ()
    lists: dict = field(default_factory=dict)  # list id -> tuple of values

    def copy(self) -> "State":
        return State({k: dict(v) for k, v in self.heap.items()}, dict(self.atoms), self.events, dict(self.lists))

    def key(self):
        return (
            tuple(sorted((o, tuple(sorted((f, repr(v)) for f, v in fs.items()))) for o, fs in self.heap.items())),
            tuple(sorted(self.atoms.items())),
        )


@dataclass(frozen=True)
class ListRef:
    id: int


def join(*vals) -> Any:
    tags: set = set()
    for v in vals:
        if isinstance(v, Arr):
            tags |= v.tags
        elif isinstance(v, Pt):
            tags.add(("pt", v.name))
        elif isinstance(v, (tuple, list)):
            j = join(*v)
            if isinstance(j, Arr):
                tags |= j.tags
    return Arr(frozenset(tags))


class Interp:
    def __init__(self, repo: Repo, hooks: "Hooks") -> None:
        self.repo = repo
        self.hooks = hooks
        self._list_counter = 0
        self.max_depth = 12

    # ----------------------------------------------------------- conditions
    def truth(self, v, st: State, text: str) -> list[tuple[State, bool]]:
        if v is True or v is False:
            return [(st, v)]
        if v is None:
            return [(st, False)]
        if isinstance(v, (Arr, Pt, Obj, Bound)):
            return [(st, True)]
        if isinstance(v, ListRef):
            return [(st, bool(st.lists.get(v.id, ())))]
        if isinstance(v, (int, float, str, tuple)):
            return [(st, bool(v))]
        if isinstance(v, Sym):
            return self.atom(v.text, st)
        # Top: non-persistent fork
        return [(st, True), (st.copy(), False)]

    def atom(self, text: str, st: State) -> list[tuple[State, bool]]:
        if text in st.atoms:
            return [(st, st.atoms[text])]
        out = []
        for b in (True, False):
            s2 = st.copy()
            s2.atoms[text] = b
            out.append((s2, b))
        return out

    # ---------------------------------------------------------- expressions
    def eval(self, e: ast.AST, env: dict, st: State, func: Func, depth: int) -> list[tuple[State, Any]]:
        if isinstance(e, ast.Constant):
            return [(st, e.value)]
        if isinstance(e, ast.Name):
            if e.id in env:
                return [(st, env[e.id])]
            q = self.repo.resolve_in_module(func.module, e.id)
            if q is not None:
                return [(st, Sym(q))]
            return [(st, Sym(e.id))]
        if isinstance(e, ast.Attribute):
            out = []
            for s1, base in self.eval(e.value, env, st, func, depth):
                out += self.getattr(base, e.attr, s1, func, depth)
            return out
        if isinstance(e, ast.BoolOp):
            return self._boolop(e, env, st, func, depth)
        if isinstance(e, ast.UnaryOp):
            out = []
            for s1, v in self.eval(e.operand, env, st, func, depth):
                if isinstance(e.op, ast.Not):
                    for s2, b in self.truth(v, s1, ""):
                        out.append((s2, not b))
                elif isinstance(v, (Arr, Pt)):
                    out.append((s1, join(v)))
                else:
                    out.append((s1, TOP))
            return out
        if isinstance(e, ast.Compare):
            return self._compare(e, env, st, func, depth)
        if isinstance(e, ast.IfExp):
            out = []
            for s1, c in self.eval(e.test, env, st, func, depth):
                for s2, b in self.truth(c, s1, ""):
                    out += self.eval(e.body if b else e.orelse, env, s2, func, depth)
            return out
        if isinstance(e, ast.Tuple):
            return self._seq(e.elts, env, st, func, depth, tuple)
        if isinstance(e, ast.List):
            out = []
            for s1, vals in self._seq(e.elts, env, st, func, depth, tuple):
                self._list_counter += 1
                s2 = s1.copy()
                s2.lists[self._list_counter] = tuple(vals)
                out.append((s2, ListRef(self._list_counter)))
            return out
        if isinstance(e, ast.Subscript):
            out = []
            for s1, base in self.eval(e.value, env, st, func, depth):
                if isinstance(base, tuple) and isinstance(e.slice, ast.Constant) and isinstance(e.slice.value, int):
                    out.append((s1, base[e.slice.value]))
                elif isinstance(base, (Arr, Pt)):
                    out.append((s1, join(base)))
                else:
                    out.append((s1, TOP))
            return out
        if isinstance(e, ast.BinOp):
            out = []
            for s1, l in self.eval(e.left, env, st, func, depth):
                for s2, r in self.eval(e.right, env, s1, func, depth):
                    if isinstance(l, (Arr, Pt)) or isinstance(r, (Arr, Pt)):
                        out.append((s2, join(l, r)))
                    elif isinstance(l, Sym) or isinstance(r, Sym):
                        lt = l.text if isinstance(l, Sym) else repr(l)
                        rt = r.text if isinstance(r, Sym) else repr(r)
                        out.append((s2, Sym(f"({lt} {type(e.op).__name__} {rt})")))
                    else:
                        out.append((s2, TOP))
            return out
        if isinstance(e, ast.Call):
            return self._call(e, env, st, func, depth)
        if isinstance(e, ast.Dict):
            return [(st, TOP)]
        if isinstance(e, ast.JoinedStr):
            return [(st, TOP)]
        raise AnalysisError(f"abstract interpreter: unsupported expression `{ast.unparse(e)[:60]}` in {func.qualname}")

    def _seq(self, elts, env, st, func, depth, ctor):
        outs = [(st, [])]
        for x in elts:
            nxt = []
            for s1, acc in outs:
                for s2, v in self.eval(x, env, s1, func, depth):
                    nxt.append((s2, acc + [v]))
            outs = nxt
        return [(s, ctor(a)) for s, a in outs]

    def _boolop(self, e: ast.BoolOp, env, st, func, depth):
        is_and = isinstance(e.op, ast.And)
        outs = []
        work = [(st, 0)]
        while work:
            s, i = work.pop()
            for s1, v in self.eval(e.values[i], env, s, func, depth):
                if i == len(e.values) - 1:
                    outs.append((s1, v))
                    continue
                for s2, b in self.truth(v, s1, ""):
                    if b == is_and:
                        work.append((s2, i + 1))
                    else:
                        outs.append((s2, v if not isinstance(v, (Sym, _Top)) else b))
        return outs

    def _compare(self, e: ast.Compare, env, st, func, depth):
        if len(e.ops) != 1:
            return [(st, TOP)]
        op = e.ops[0]
        out = []
        for s1, l in self.eval(e.left, env, st, func, depth):
            for s2, r in self.eval(e.comparators[0], env, s1, func, depth):
                if isinstance(op, (ast.Is, ast.IsNot)) and r is None:
                    if isinstance(l, Sym):
                        for s3, b in self.atom(f"{l.text} is None", s2):
                            out.append((s3, b if isinstance(op, ast.Is) else not b))
                    elif isinstance(l, _Top):
                        out += [(s2, True), (s2.copy(), False)]
                    else:
                        res = l is None
                        out.append((s2, res if isinstance(op, ast.Is) else not res))
                elif isinstance(op, (ast.In, ast.NotIn)) and isinstance(l, Sym) and isinstance(r, Sym):
                    for s3, b in self.atom(f"{l.text} in {r.text}", s2):
                        out.append((s3, b if isinstance(op, ast.In) else not b))
                elif isinstance(op, (ast.Eq, ast.NotEq)) and isinstance(l, tuple) and isinstance(r, tuple) and l and r and l[0] == "shape" and r[0] == "shape":
                    if l == r:
                        out.append((s2, isinstance(op, ast.Eq)))
                    else:
                        out += [(s2, True), (s2.copy(), False)]
                elif isinstance(op, (ast.Eq, ast.NotEq)) and isinstance(l, Sym) and isinstance(r, (str, Sym)):
                    rt = r if isinstance(r, str) else r.text
                    for s3, b in self.atom(f"{l.text} == {rt!r}", s2):
                        out.append((s3, b if isinstance(op, ast.Eq) else not b))
                elif type(l) in (int, float, bool, str) and type(r) in (int, float, bool, str):
                    try:
                        val = {
                            ast.Eq: l == r, ast.NotEq: l != r, ast.Lt: l < r, ast.LtE: l <= r, ast.Gt: l > r, ast.GtE: l >= r,
                        }[type(op)]
                        out.append((s2, val))
                    except Exception:  # noqa: BLE001
                        out.append((s2, TOP))
                elif isinstance(l, Sym) or isinstance(r, Sym):
                    lt = l.text if isinstance(l, Sym) else repr(l)
                    rt = r.text if isinstance(r, Sym) else repr(r)
                    for s3, b in self.atom(f"{lt} {type(op).__name__} {rt}", s2):
                        out.append((s3, b))
                else:
                    out.append((s2, TOP))
        return out

    # ------------------------------------------------------------ attributes
    def getattr(self, base, name: str, st: State, func: Func, depth: int) -> list[tuple[State, Any]]:
        if isinstance(base, Obj):
            fields = st.heap.setdefault(base.name, {})
            if name in fields:
                return [(st, fields[name])]
            c = self.repo.classes.get(base.cls)
            if c is not None:
                m = self.repo.find_method(c, name)
                if m is not None:
                    if m.is_property:
                        return self.call_func(m, [base], {}, st, depth + 1)
                    return [(st, Bound(m.qualname, base))]
            return [(st, Sym(f"{base.name}.{name}"))]
        if isinstance(base, Sym):
            return [(st, Sym(f"{base.text}.{name}"))]
        if isinstance(base, Pt):
            if name == "shape":
                return [(st, ("shape", base.name))]
            if name == "T":
                return [(st, base)]
            if name == "ndim":
                return [(st, self.hooks.ndim(base, st))]
            if name == "size":
                return [(st, self.hooks.size(base, st))]
            return [(st, Bound(f"<pt>.{name}", base))]
        if isinstance(base, Arr):
            if name in ("T",):
                return [(st, base)]
            if name in ("shape", "ndim", "size"):
                return [(st, TOP)]
            return [(st, Bound(f"<arr>.{name}", base))]
        if isinstance(base, ListRef):
            return [(st, Bound(f"<list>.{name}", base))]
        if isinstance(base, _Top):
            return [(st, TOP)]
        return [(st, TOP)]

    # ------------------------------------------------------------------ calls
    def _call(self, e: ast.Call, env, st, func, depth):
        out = []
        for s1, fn in self.eval(e.func, env, st, func, depth):
            for s2, args in self._seq([a for a in e.args], env, s1, func, depth, list):
                kouts = [(s2, {})]
                for kw in e.keywords:
                    nxt = []
                    for s3, acc in kouts:
                        for s4, v in self.eval(kw.value, env, s3, func, depth):
                            d = dict(acc)
                            d[kw.arg] = v
                            nxt.append((s4, d))
                    kouts = nxt
                for s5, kwargs in kouts:
                    out += self.apply(fn, args, kwargs, s5, func, depth, e)
        return out

    def apply(self, fn, args, kwargs, st: State, func: Func, depth: int, node: ast.AST) -> list[tuple[State, Any]]:
        if isinstance(fn, Bound):
            if fn.func.startswith("<pt>.") or fn.func.startswith("<arr>."):
                name = fn.func.split(".", 1)[1]
                if name in ("copy", "transpose", "flatten", "ravel", "reshape", "astype", "squeeze"):
                    return [(st, fn.self_obj)]
                return [(st, join(fn.self_obj, *args))]
            if fn.func.startswith("<list>."):
                name = fn.func.split(".", 1)[1]
                if name == "append":
                    s2 = st.copy()
                    s2.lists[fn.self_obj.id] = s2.lists.get(fn.self_obj.id, ()) + (args[0],)
                    return [(s2, None)]
                raise AnalysisError(f"abstract interpreter: unsupported list method {name}")
            f2 = self.repo.funcs[fn.func]
            handled = self.hooks.method_call(self, f2, fn.self_obj, args, kwargs, st, depth)
            if handled is not None:
                return handled
            return self.call_func(f2, [fn.self_obj] + list(args), dict(fn.kwargs) | kwargs, st, depth + 1)
        if isinstance(fn, Sym):
            return self.hooks.external_call(self, fn.text, args, kwargs, st, func, node)
        if isinstance(fn, _Top):
            return [(st, TOP)]
        raise AnalysisError(f"abstract interpreter: cannot call {fn!r} at {func.where(node)}")

    def call_func(self, f: Func, args: list, kwargs: dict, st: State, depth: int) -> list[tuple[State, Any]]:
        if depth > self.max_depth:
            raise AnalysisError(f"abstract interpreter: call depth exceeded at {f.qualname}")
        a = f.node.args
        pos = [x.arg for x in a.posonlyargs + a.args]
        env: dict = {}
        for p, v in zip(pos, args):
            env[p] = v
        for k, v in kwargs.items():
            env[k] = v
        # defaults
        defaults = a.defaults
        for p, d in zip(pos[len(pos) - len(defaults):], defaults):
            if p not in env:
                env[p] = ast.literal_eval(d) if isinstance(d, ast.Constant) else TOP
        for p, d in zip(a.kwonlyargs, a.kw_defaults):
            if p.arg not in env:
                env[p.arg] = d.value if isinstance(d, ast.Constant) else TOP
        outs = []
        for s, flow, val, _env in self.exec_block(f.body, env, st, f, depth):
            outs.append((s, val if flow == "return" else None))
        return outs

    # ------------------------------------------------------------- statements
    def exec_block(self, stmts, env: dict, st: State, func: Func, depth: int):
        """-> list of (state, flow, value, env) with flow in next/return."""
        outs = [(st, "next", None, env)]
        for s in stmts:
            nxt = []
            for s1, flow, val, env1 in outs:
                if flow != "next":
                    nxt.append((s1, flow, val, env1))
                    continue
                nxt += self.exec_stmt(s, env1, s1, func, depth)
            outs = self._dedupe(nxt)
            if len(outs) > 4096:
                raise AnalysisError("abstract interpreter: too many paths")
        return outs

    @staticmethod
    def _dedupe(outs):
        """Merge outcomes that are indistinguishable (same heap, atoms, events,
        lists, control flow, value and environment): forks on conditions that
        did not matter re-join here."""
        if len(outs) < 2:
            return outs
        seen = {}
        for o in outs:
            s, flow, val, env = o
            try:
                k = (s.key(), s.events, tuple(sorted((i, repr(v)) for i, v in s.lists.items())), flow, repr(val),
                     tuple(sorted((n, repr(v)) for n, v in env.items())))
            except Exception:  # noqa: BLE001
                k = id(o)
            seen.setdefault(k, o)
        return list(seen.values())

    def exec_stmt(self, s: ast.stmt, env: dict, st: State, func: Func, depth: int):
        if isinstance(s, ast.Expr):
            if isinstance(s.value, ast.Constant):
                return [(st, "next", None, env)]
            return [(s1, "next", None, env) for s1, _v in self.eval(s.value, env, st, func, depth)]
        if isinstance(s, (ast.Assign, ast.AnnAssign)):
            if getattr(s, "value", None) is None:
                return [(st, "next", None, env)]
            targets = s.targets if isinstance(s, ast.Assign) else [s.target]
            out = []
            for s1, v in self.eval(s.value, env, st, func, depth):
                env2 = dict(env)
                s2 = s1
                for t in targets:
                    s2, env2 = self._assign(t, v, env2, s2, func, depth)
                out.append((s2, "next", None, env2))
            return out
        if isinstance(s, ast.AugAssign):
            out = []
            for s1, v in self.eval(s.value, env, st, func, depth):
                cur = self.eval(s.target, env, s1, func, depth)
                for s2, c in cur:
                    nv = join(c, v) if isinstance(c, (Arr, Pt)) or isinstance(v, (Arr, Pt)) else TOP
                    s3, env2 = self._assign(s.target, nv, dict(env), s2, func, depth)
                    out.append((s3, "next", None, env2))
            return out
        if isinstance(s, ast.Return):
            if s.value is None:
                return [(st, "return", None, env)]
            return [(s1, "return", v, env) for s1, v in self.eval(s.value, env, st, func, depth)]
        if isinstance(s, ast.If):
            out = []
            for s1, c in self.eval(s.test, env, st, func, depth):
                for s2, b in self.truth(c, s1, ""):
                    out += self.exec_block(s.body if b else s.orelse, env, s2, func, depth)
            return out
        if isinstance(s, ast.Assert):
            out = []
            for s1, c in self.eval(s.test, env, st, func, depth):
                for s2, b in self.truth(c, s1, ""):
                    if b:
                        out.append((s2, "next", None, env))
                    elif not isinstance(c, (Sym, _Top)):
                        # a concretely failing assertion: AssertionError escapes
                        self.hooks.assertion_failed(s, func, s2)
            return out
        if isinstance(s, ast.Pass):
            return [(st, "next", None, env)]
        if isinstance(s, ast.For):
            out = []
            for s1, it in self.eval(s.iter, env, st, func, depth):
                if isinstance(it, ListRef):
                    items = s1.lists.get(it.id, ())
                elif isinstance(it, (tuple, list)):
                    items = it
                else:
                    raise AnalysisError(f"abstract interpreter: loop over non-concrete iterable at {func.where(s)}")
                cur = [(s1, "next", None, env)]
                for item in items:
                    nxt = []
                    for s2, flow, val, env2 in cur:
                        if flow != "next":
                            nxt.append((s2, flow, val, env2))
                            continue
                        s3, env3 = self._assign(s.target, item, dict(env2), s2, func, depth)
                        nxt += self.exec_block(s.body, env3, s3, func, depth)
                    cur = nxt
                out += cur
            return out
        if isinstance(s, (ast.FunctionDef,)):
            env2 = dict(env)
            f2 = getattr(s, "_func", None)
            env2[s.name] = Bound(f2.qualname, None) if f2 is not None else TOP
            return [(st, "next", None, env2)]
        if isinstance(s, ast.Raise):
            return []  # the path ends with an exception
        raise AnalysisError(f"abstract interpreter: unsupported statement `{ast.unparse(s)[:60]}` in {func.qualname}")

    def _assign(self, t: ast.AST, v, env: dict, st: State, func: Func, depth: int):
        if isinstance(t, ast.Name):
            env[t.id] = v
            return st, env
        if isinstance(t, (ast.Tuple, ast.List)):
            if isinstance(v, tuple) and len(v) == len(t.elts):
                for x, y in zip(t.elts, v):
                    st, env = self._assign(x, y, env, st, func, depth)
            else:
                for x in t.elts:
                    st, env = self._assign(x.value if isinstance(x, ast.Starred) else x, TOP if not isinstance(v, (Arr, Pt)) else join(v), env, st, func, depth)
            return st, env
        if isinstance(t, ast.Attribute):
            bases = self.eval(t.value, env, st, func, depth)
            if len(bases) != 1:
                raise AnalysisError("abstract interpreter: forking store target")
            s1, base = bases[0]
            if isinstance(base, Obj):
                s2 = s1.copy()
                s2.heap.setdefault(base.name, {})[t.attr] = v
                return s2, env
            return s1, env
        if isinstance(t, ast.Subscript):
            # content update: join tags into the stored array
            bases = self.eval(t.value, env, st, func, depth)
            if len(bases) == 1 and isinstance(t.value, (ast.Name, ast.Attribute)):
                s1, base = bases[0]
                if isinstance(base, (Arr, Pt)) or isinstance(v, (Arr, Pt)):
                    return self._assign(t.value, join(base, v), env, s1, func, depth)
                return s1, env
            return st, env
        raise AnalysisError(f"abstract interpreter: unsupported assignment target `{ast.unparse(t)}`")


class Hooks:
    """Domain modelling supplied by the rule."""

    def ndim(self, pt: Pt, st: State):
        return TOP

    def size(self, pt: Pt, st: State):
        return TOP

    def method_call(self, interp: Interp, f: Func, self_obj, args, kwargs, st: State, depth: int):
        return None

    def external_call(self, interp: Interp, text: str, args, kwargs, st: State, func: Func, node: ast.AST):
        return [(st, join(*args, *kwargs.values()))]

    def assertion_failed(self, node: ast.Assert, func: Func, st: State) -> None:
        pass
