"""E4 - resolved call graph with receiver typing and callback edges."""

from __future__ import annotations

import ast
from typing import Iterable

from .dataflow import walk_body, walk_scope
from .model import Cls, Func, Repo, dotted
from .terms import Expander, Term, alts, subterms

# external functions that invoke the callables they are given (DESIGN.md section 4)
HIGHER_ORDER_EXTERNALS = {
    "scipy.optimize.minimize",
    "scipy.optimize.differential_evolution",
    "atexit.register",
}

# type representation: ('cls', qualname) | ('seq', T) | ('map', T) | ('ext', name)
Type = tuple


class CallGraph:
    def __init__(self, repo: Repo, X: Expander | None = None) -> None:
        self.repo = repo
        self.X = X or Expander(repo)
        self._field_types: dict[tuple[str, str], frozenset[Type]] = {}
        self._field_busy: set[tuple[str, str]] = set()
        self._sites: dict[str, list[tuple[ast.Call, list[Func]]]] | None = None
        self._callers: dict[str, list[tuple[Func, ast.Call]]] | None = None
        self.unresolved: list[tuple[Func, ast.Call]] = []
        self.n_calls = 0
        self.n_external = 0
        self.n_resolved = 0
        self._plugin_types = self._read_plugin_types()
        self._cb: dict | None = None
        self._all_callees: dict[str, list] = {}

    # ------------------------------------------------------------ annotation
    def ann_types(self, ann: ast.AST | None, func_or_mod) -> frozenset[Type]:
        if ann is None:
            return frozenset()
        mod = func_or_mod.module if isinstance(func_or_mod, (Func, Cls)) else func_or_mod
        if isinstance(ann, ast.Constant) and isinstance(ann.value, str):
            try:
                ann = ast.parse(ann.value, mode="eval").body
            except SyntaxError:
                return frozenset()
        if isinstance(ann, ast.BinOp) and isinstance(ann.op, ast.BitOr):
            return self.ann_types(ann.left, mod) | self.ann_types(ann.right, mod)
        if isinstance(ann, ast.Subscript):
            head = dotted(ann.value) or ""
            head = head.split(".")[-1]
            sl = ann.slice
            if head in ("list", "List", "tuple", "Tuple", "set", "Set", "Sequence", "Iterable", "Generator", "Iterator", "frozenset"):
                elts = sl.elts if isinstance(sl, ast.Tuple) else [sl]
                out: set[Type] = set()
                for e in elts:
                    if isinstance(e, ast.Constant) and e.value is Ellipsis:
                        continue
                    for t in self.ann_types(e, mod):
                        out.add(("seq", t))
                    if head in ("Generator",):
                        break
                return frozenset(out)
            if head in ("dict", "Dict", "Mapping"):
                if isinstance(sl, ast.Tuple) and len(sl.elts) == 2:
                    return frozenset(("map", t) for t in self.ann_types(sl.elts[1], mod))
                return frozenset()
            if head in ("Optional", "Annotated", "Final", "ClassVar", "Type", "type"):
                first = sl.elts[0] if isinstance(sl, ast.Tuple) else sl
                return self.ann_types(first, mod)
            if head == "Union":
                elts = sl.elts if isinstance(sl, ast.Tuple) else [sl]
                out2: set[Type] = set()
                for e in elts:
                    out2 |= self.ann_types(e, mod)
                return frozenset(out2)
            return frozenset()
        d = dotted(ann)
        if d is None:
            return frozenset()
        if d in ("None", "Any", "int", "float", "str", "bool", "object", "Self"):
            if d == "Self" and isinstance(func_or_mod, Func) and func_or_mod.cls is not None:
                return frozenset([("cls", func_or_mod.cls.qualname)])
            return frozenset()
        q = self.repo.resolve_in_module(mod, d)
        if q is None:
            return frozenset()
        if q in self.repo.classes:
            return frozenset([("cls", q)])
        return frozenset([("ext", q)])

    # ---------------------------------------------------------- field types
    def field_types(self, c: Cls, name: str) -> frozenset[Type]:
        key = (c.qualname, name)
        if key in self._field_types:
            return self._field_types[key]
        if key in self._field_busy:
            return frozenset()
        self._field_busy.add(key)
        out: set[Type] = set()
        try:
            for k in self.repo.mro(c):
                if name in k.fields:
                    ann, _default = k.fields[name]
                    out |= self.ann_types(ann, k)
                # properties
                m = k.methods.get(name)
                if m is not None and m.is_property:
                    out |= self.ann_types(m.node.returns, m)
                    if not out:
                        out |= self.term_types(self.X.return_term(m), m)
                for m in k.methods.values():
                    for n in walk_scope(m.node):
                        tgt = val = ann = None
                        if isinstance(n, ast.AnnAssign):
                            tgt, val, ann = n.target, n.value, n.annotation
                        elif isinstance(n, ast.Assign) and len(n.targets) == 1:
                            tgt, val = n.targets[0], n.value
                        if (
                            isinstance(tgt, ast.Attribute)
                            and tgt.attr == name
                            and isinstance(tgt.value, ast.Name)
                            and m.positional
                            and tgt.value.id == m.positional[0]
                        ):
                            if ann is not None:
                                out |= self.ann_types(ann, m)
                            elif val is not None:
                                out |= self.term_types(self.X.at(m, val), m)
                if out:
                    break
        finally:
            self._field_busy.discard(key)
        res = frozenset(out)
        self._field_types[key] = res
        return res

    def _read_plugin_types(self) -> dict[str, str]:
        out: dict[str, str] = {}
        m = self.repo.modules.get("ropt.plugins._manager")
        if m is None:
            return out
        d = m.constants.get("_PLUGIN_TYPES")
        if isinstance(d, ast.Dict):
            for k, v in zip(d.keys, d.values):
                if isinstance(k, ast.Constant) and isinstance(k.value, str):
                    q = self.repo.resolve_in_module(m, dotted(v) or "")
                    if q:
                        out[k.value] = q
        return out

    # ----------------------------------------------------------- term types
    def term_types(self, t: Term, func: Func, _depth: int = 0) -> frozenset[Type]:
        if _depth > 8:
            return frozenset()
        k = t[0]
        R = lambda x: self.term_types(x, func, _depth + 1)  # noqa: E731
        if k == "phi":
            out: set[Type] = set()
            for a in t[1]:
                out |= R(a)
            return frozenset(out)
        if k == "param":
            f = self.repo.funcs.get(t[1])
            if f is None:
                return frozenset()
            if f.cls is not None and f.positional and t[2] == f.positional[0] and not f.is_static:
                return frozenset([("cls", f.cls.qualname)])
            a = f.node.args
            for arg in a.posonlyargs + a.args + a.kwonlyargs:
                if arg.arg == t[2]:
                    return self.ann_types(arg.annotation, f)
            return frozenset()
        if k == "attr":
            out2: set[Type] = set()
            for bt in R(t[1]):
                if bt[0] == "cls" and bt[1] in self.repo.classes:
                    out2 |= self.field_types(self.repo.classes[bt[1]], t[2])
            return frozenset(out2)
        if k == "call":
            fn = t[1]
            if fn[0] == "global":
                q = fn[1]
                if q in self.repo.classes:
                    return frozenset([("cls", q)])
                if q in self.repo.funcs:
                    f = self.repo.funcs[q]
                    return self.ann_types(f.node.returns, f) if not isinstance(f.node, ast.Lambda) else frozenset()
                return frozenset([("ext", q)])
            if fn[0] == "attr":
                # plug-in manager lookups: get_plugin("<type>", ...) -> plugin base
                if fn[2] == "get_plugin" and t[2] and t[2][0][0] == "const":
                    q = self._plugin_types.get(t[2][0][1])
                    if q:
                        return frozenset([("cls", q)])
                out3: set[Type] = set()
                for m in self.resolve_fn(fn, func, _depth + 1):
                    if isinstance(m.node, ast.Lambda):
                        continue
                    if m.name == "__init__" and m.cls is not None:
                        out3.add(("cls", m.cls.qualname))
                    else:
                        out3 |= self.ann_types(m.node.returns, m)
                return frozenset(out3)
            if fn[0] == "func":
                f = self.repo.funcs.get(fn[1])
                if f is not None and not isinstance(f.node, ast.Lambda):
                    return self.ann_types(f.node.returns, f)
            return frozenset()
        if k in ("iter",):
            out4: set[Type] = set()
            for bt in R(t[1]):
                if bt[0] == "seq":
                    out4.add(bt[1])
                # dict.values() etc. handled below
            it = t[1]
            if it[0] == "call" and it[1][0] == "attr" and it[1][2] in ("values",):
                for bt in R(it[1][1]):
                    if bt[0] == "map":
                        out4.add(bt[1])
            return frozenset(out4)
        if k == "sub":
            out5: set[Type] = set()
            for bt in R(t[1]):
                if bt[0] in ("seq", "map"):
                    out5.add(bt[1])
            return frozenset(out5)
        if k == "comp" and t[1] in ("list", "gen", "set"):
            return frozenset(("seq", x) for x in R(t[2]))
        if k in ("list", "tuple"):
            out6: set[Type] = set()
            for e in t[1]:
                out6 |= {("seq", x) for x in R(e)}
            return frozenset(out6)
        if k == "ifexp":
            return R(t[2]) | R(t[3])
        if k in ("update", "setattr", "mut", "aug"):
            return R(t[1])
        if k == "enter":
            return R(t[1])
        if k == "item":
            return frozenset()
        if k == "global":
            if t[1] in self.repo.classes:
                return frozenset([("type", t[1])])
        return frozenset()

    # ------------------------------------------------------ call resolution
    def _ctor(self, c: Cls) -> list[Func]:
        out = []
        for nm in ("__init__", "__post_init__"):
            m = self.repo.find_method(c, nm)
            if m is not None:
                out.append(m)
        return out

    def _methods(self, cq: str, name: str) -> list[Func]:
        """Method ``name`` on static type ``cq``: the MRO definition plus
        overriding implementations in subclasses (class-hierarchy analysis)."""
        if cq not in self.repo.classes:
            return []
        c = self.repo.classes[cq]
        out: list[Func] = []
        m = self.repo.find_method(c, name)
        if m is not None:
            out.append(m)
        for s in self.repo.subclasses(cq):
            if name in s.methods and s.methods[name] not in out:
                out.append(s.methods[name])
        return out

    def resolve_fn(self, fn: Term, func: Func, _depth: int = 0) -> list[Func]:
        """Functions a callee term may denote."""
        if _depth > 8:
            return []
        k = fn[0]
        if k == "phi":
            out: list[Func] = []
            for a in fn[1]:
                for f in self.resolve_fn(a, func, _depth + 1):
                    if f not in out:
                        out.append(f)
            return out
        if k == "ifexp":
            out = []
            for a in (fn[2], fn[3]):
                for f in self.resolve_fn(a, func, _depth + 1):
                    if f not in out:
                        out.append(f)
            return out
        if k == "global":
            q = fn[1]
            if q in self.repo.funcs:
                return [self.repo.funcs[q]]
            if q in self.repo.classes:
                return self._ctor(self.repo.classes[q])
            return []
        if k == "func":
            return [self.repo.funcs[fn[1]]] if fn[1] in self.repo.funcs else []
        if k == "attr":
            base, name = fn[1], fn[2]
            out2: list[Func] = []
            # super().m
            if base[0] == "call" and base[1] == ("builtin", "super") and func.cls is not None:
                for kcls in self.repo.mro(func.cls)[1:]:
                    if name in kcls.methods:
                        return [kcls.methods[name]]
                return []
            for bt in self.term_types(base, func, _depth + 1):
                if bt[0] == "cls":
                    # a field holding a callable (callback) rather than a method
                    ms = self._methods(bt[1], name)
                    if ms:
                        for m in ms:
                            if m not in out2:
                                out2.append(m)
                    else:
                        for v in self.field_values(self.repo.classes[bt[1]], name):
                            for f in self.resolve_fn(v, func, _depth + 1):
                                if f not in out2:
                                    out2.append(f)
                elif bt[0] == "type":
                    m = self.repo.find_method(self.repo.classes[bt[1]], name)
                    if m is not None:
                        out2.append(m)
            return out2
        if k == "call":
            # functools.partial(f, ...) -> f
            if fn[1] == ("global", "functools.partial") and fn[2]:
                return self.resolve_fn(fn[2][0], func, _depth + 1)
            # REGISTRY.get(key): any value of a module-level dict literal
            if fn[1][0] == "attr" and fn[1][2] == "get":
                return self._registry_values(fn[1][1], func, _depth)
            return []
        if k == "sub":
            return self._registry_values(fn[1], func, _depth)
        if k == "param":
            # callable parameter: values passed at the call sites
            f = self.repo.funcs.get(fn[1])
            if f is None:
                return []
            out3: list[Func] = []
            for v in self.param_values(f, fn[2]):
                for g in self.resolve_fn(v, f, _depth + 1):
                    if g not in out3:
                        out3.append(g)
            return out3
        return []

    def _registry_values(self, base: Term, func: Func, _depth: int) -> list[Func]:
        """Callees denoted by the values of a module-level dict constant."""
        out: list[Func] = []
        if base[0] != "global":
            return out
        modname, _, cname = base[1].rpartition(".")
        m = self.repo.modules.get(modname)
        if m is None or cname not in m.constants:
            return out
        d = m.constants[cname]
        if isinstance(d, ast.Dict):
            for v in d.values:
                q = self.repo.resolve_in_module(m, dotted(v) or "")
                if q:
                    for f in self.resolve_fn(("global", q), func, _depth + 1):
                        if f not in out:
                            out.append(f)
        return out

    def field_values(self, c: Cls, name: str) -> list[Term]:
        """Terms stored into ``self.<name>`` anywhere in the class hierarchy."""
        out: list[Term] = []
        for k in self.repo.mro(c):
            for m in k.methods.values():
                if not m.positional:
                    continue
                selfname = m.positional[0]
                for n in walk_scope(m.node):
                    tgt = val = None
                    if isinstance(n, ast.AnnAssign):
                        tgt, val = n.target, n.value
                    elif isinstance(n, ast.Assign):
                        for t in n.targets:
                            if isinstance(t, ast.Attribute) and t.attr == name:
                                tgt, val = t, n.value
                    if (
                        isinstance(tgt, ast.Attribute)
                        and tgt.attr == name
                        and isinstance(tgt.value, ast.Name)
                        and tgt.value.id == selfname
                        and val is not None
                    ):
                        out.append(self.X.at(m, val))
        return out

    def param_values(self, f: Func, pname: str, _seen: frozenset = frozenset()) -> list[Term]:
        """Argument terms bound to parameter ``pname`` at resolved call sites."""
        out: list[Term] = []
        for caller, call in self.callers(f):
            t = self.X.at(caller, call)
            arg = bind_args(f, t, bound=_is_bound_call(t, f)).get(pname)
            if arg is not None:
                out.append(arg)
        # functools.partial(f, ...): the bound arguments
        for caller, pt in self.partials_of(f):
            inner = ("call", pt[2][0], pt[2][1:], pt[3])
            arg = bind_args(f, inner, bound=_is_bound_call(inner, f)).get(pname)
            if arg is not None:
                out.append(arg)
        return out

    def partials_of(self, f: Func) -> list[tuple[Func, Term]]:
        """(function, term of `functools.partial(f, ...)`) for every partial application of ``f``."""
        idx = self.__dict__.get("_partials")
        if idx is None:
            idx = {}
            for g in self.repo.all_funcs():
                for call, _cs in self._sites.get(g.qualname, []):
                    d = dotted(call.func)
                    if d is None or d.split(".")[-1] != "partial" or not call.args:
                        continue
                    t = self.X.at(g, call)
                    if t[0] != "call" or t[1] != ("global", "functools.partial") or not t[2]:
                        continue
                    for h in self.resolve_fn(t[2][0], g):
                        idx.setdefault(h.qualname, []).append((g, t))
            self.__dict__["_partials"] = idx
        return idx.get(f.qualname, [])

    # -------------------------------------------------------------- indexes
    def _build(self) -> None:
        self._sites = {}
        self._callers = {}
        for f in self.repo.all_funcs():
            sites: list[tuple[ast.Call, list[Func]]] = []
            roots = [f.node.body] if isinstance(f.node, ast.Lambda) else f.node.body
            for n in walk_body(roots):
                if isinstance(n, ast.Call):
                    sites.append((n, []))
            self._sites[f.qualname] = sites
        # several passes: callable-parameter resolution needs the callers index
        # of the previous pass (built aside and swapped in when complete)
        prev_count = -1
        for _ in range(4):
            callers: dict[str, list[tuple[Func, ast.Call]]] = {}
            unresolved = []
            n_calls = n_external = n_resolved = 0
            new_all = {}
            for f in self.repo.all_funcs():
                new_sites = []
                for call, _old in self._sites[f.qualname]:
                    fn = self.X.at(f, call.func)
                    callees = self.resolve_fn(fn, f)
                    new_sites.append((call, callees))
                    n_calls += 1
                    if callees:
                        n_resolved += 1
                        for g in callees:
                            callers.setdefault(g.qualname, []).append((f, call))
                    elif _is_external(fn):
                        n_external += 1
                    else:
                        unresolved.append((f, call))
                new_all[f.qualname] = new_sites
            self._sites = new_all
            self._callers = callers
            self.unresolved = unresolved
            self.n_calls, self.n_external, self.n_resolved = n_calls, n_external, n_resolved
            edge_count = sum(len(cs) for ss in new_all.values() for _, cs in ss)
            if edge_count == prev_count:
                break
            prev_count = edge_count

    def sites(self, f: Func) -> list[tuple[ast.Call, list[Func]]]:
        if self._sites is None:
            self._build()
        assert self._sites is not None
        return self._sites.get(f.qualname, [])

    def callers(self, f: Func) -> list[tuple[Func, ast.Call]]:
        if self._callers is None:
            if self._sites is None:
                self._sites = {}
                self._callers = {}
                self._build()
        assert self._callers is not None
        return self._callers.get(f.qualname, [])

    def callees_of_call(self, f: Func, call: ast.Call) -> list[Func]:
        for c, cs in self.sites(f):
            if c is call:
                return cs
        return []

    def reachable(self, roots: Iterable[Func], include_nested_values: bool = True) -> list[Func]:
        """Functions reachable through resolved calls (and function values
        created inside reached functions when ``include_nested_values``)."""
        seen: dict[str, Func] = {}
        work = list(roots)
        while work:
            f = work.pop()
            if f.qualname in seen:
                continue
            seen[f.qualname] = f
            for _call, cs in self.sites(f):
                for g in cs:
                    if g.qualname not in seen:
                        work.append(g)
            if include_nested_values:
                for g in f.nested.values():
                    if g.qualname not in seen:
                        work.append(g)
        return [seen[q] for q in sorted(seen)]

    def function_values_deep(self, t: Term, func: Func, depth: int = 0, _seen: set | None = None) -> list[Func]:
        """Package functions that may be *called through* the value ``t``:
        function values inside it, inside the self-fields it reads and inside
        the return values of package calls it contains (callback flow)."""
        if _seen is None:
            _seen = set()
        out: list[Func] = []
        if depth > 5:
            return out

        def add(fs):
            for f in fs:
                if f not in out:
                    out.append(f)

        def visit(x: Term, callee_pos: bool) -> None:
            k = x[0]
            if k == "rec":
                key = ("rec",) + tuple(x[3:5])
                if len(x) >= 5 and key not in _seen:
                    _seen.add(key)
                    visit(self.X.deref(x), callee_pos)
                return
            if k == "func" and not callee_pos:
                add(self.resolve_fn(x, func))
                return
            if k == "global":
                if not callee_pos and x[1] in self.repo.funcs:
                    add([self.repo.funcs[x[1]]])
                return
            if k == "attr":
                if not callee_pos:
                    ms = [m for m in self.resolve_fn(x, func) if not m.is_property]
                    add(ms)
                    if not ms:
                        for bt in self.term_types(x[1], func):
                            if bt[0] == "cls" and bt[1] in self.repo.classes:
                                key = ("field", bt[1], x[2])
                                if key in _seen:
                                    continue
                                _seen.add(key)
                                c = self.repo.classes[bt[1]]
                                for m, v in self.field_stores(c, x[2]):
                                    add(self.function_values_deep(v, m, depth + 1, _seen))
                visit(x[1], False)
                return
            if k == "call":
                fn = x[1]
                if fn == ("global", "functools.partial"):
                    for a in x[2]:
                        visit(a, False)
                    return
                visit(fn, True)
                for a in x[2]:
                    visit(a, False)
                for _, v in x[3]:
                    visit(v, False)
                for g in self.resolve_fn(fn, func):
                    key = ("ret", g.qualname)
                    if key in _seen or g.name in ("__init__", "__post_init__"):
                        continue
                    _seen.add(key)
                    add(self.function_values_deep(self.X.return_term(g), g, depth + 1, _seen))
                return
            from .terms import children

            for y in children(x):
                visit(y, False)

        visit(t, False)
        return out

    def field_stores(self, c: Cls, name: str) -> list[tuple[Func, Term]]:
        """(method, value term) for every ``self.<name> = value`` store."""
        out: list[tuple[Func, Term]] = []
        for k in self.repo.mro(c):
            for m in k.methods.values():
                if not m.positional:
                    continue
                selfname = m.positional[0]
                for n in walk_scope(m.node):
                    pairs = []
                    if isinstance(n, ast.AnnAssign) and n.value is not None:
                        pairs = [(n.target, n.value)]
                    elif isinstance(n, ast.Assign):
                        pairs = [(t, n.value) for t in n.targets]
                    for tgt, val in pairs:
                        if (
                            isinstance(tgt, ast.Attribute)
                            and tgt.attr == name
                            and isinstance(tgt.value, ast.Name)
                            and tgt.value.id == selfname
                        ):
                            out.append((m, self.X.at(m, val)))
                        elif isinstance(tgt, (ast.Tuple, ast.List)):
                            # `self.a, self.b = x, y`
                            from .terms import _project

                            for i, e in enumerate(tgt.elts):
                                if isinstance(e, ast.Attribute) and e.attr == name and isinstance(e.value, ast.Name) and e.value.id == selfname:
                                    out.append((m, _project(self.X.at(m, val), (i,))))
        return out

    def callbacks_of_call(self, f: Func, call: ast.Call) -> list[Func]:
        """Callback edges: package functions passed (directly, through fields
        or through returned containers) as arguments of an external call."""
        if self._cb is None:
            self._cb = {}
        key = id(call)
        if key not in self._cb:
            t = self.X.at(f, call)
            out: list[Func] = []
            for a in list(t[2]) + [v for _, v in t[3]]:
                for g in self.function_values_deep(a, f):
                    if g not in out:
                        out.append(g)
            self._cb[key] = out
        return self._cb[key]

    def all_callees(self, f: Func) -> list[tuple[ast.Call, list[Func], str]]:
        """(call, callees, kind) with kind 'direct' or 'callback'.  Callback
        edges exist only for the external higher-order functions of
        HIGHER_ORDER_EXTERNALS (trusted table: they may call what they get)."""
        key = f.qualname
        if key in self._all_callees:
            return self._all_callees[key]
        out = []
        for call, cs in self.sites(f):
            if cs:
                out.append((call, cs, "direct"))
            else:
                fn = self.X.at(f, call.func)
                if fn[0] == "global" and fn[1] in HIGHER_ORDER_EXTERNALS:
                    cbs = self.callbacks_of_call(f, call)
                    if cbs:
                        out.append((call, cbs, "callback"))
        self._all_callees[key] = out
        return out

    def function_values_in(self, t: Term, func: Func) -> list[Func]:
        """Package functions denoted by function-valued subterms of ``t``
        (bound methods, partials, closures, lambdas)."""
        out: list[Func] = []
        for s in subterms(t):
            cands: list[Func] = []
            if s[0] == "func":
                cands = self.resolve_fn(s, func)
            elif s[0] == "attr":
                cands = [m for m in self.resolve_fn(s, func) if not m.is_property]
            elif s[0] == "global" and s[1] in self.repo.funcs:
                cands = [self.repo.funcs[s[1]]]
            for c in cands:
                if c not in out:
                    out.append(c)
        return out


def _is_external(fn: Term) -> bool:
    k = fn[0]
    if k in ("global", "builtin"):
        return True
    if k == "attr":
        return True  # method of a non-package value (numpy array, dict, str, ...)
    if k == "phi":
        return all(_is_external(a) for a in fn[1])
    return False


def _is_bound_call(call: Term, f: Func) -> bool:
    """True when ``f``'s first parameter (self/cls) is bound implicitly."""
    if f.cls is None or f.is_static or isinstance(f.node, ast.Lambda) or f.outer is not None:
        return False
    fn = call[1]
    if fn[0] == "global" and fn[1] == f.qualname:
        return False  # Class.method(obj, ...) style
    return True


def positional_args(f: Func, call: Term, bound: bool = False) -> list:
    """Argument terms of ``call`` in the order of f's parameters, whether they were passed by
    position or by keyword (None for parameters left at their default)."""
    m = bind_args(f, call, bound)
    a = f.node.args
    names = [x.arg for x in a.posonlyargs + a.args]
    if bound and names:
        names = names[1:]
    names += [x.arg for x in a.kwonlyargs]
    return [m.get(n) for n in names]


def bind_args(f: Func, call: Term, bound: bool) -> dict[str, Term]:
    """Map parameter names of ``f`` to the argument terms of ``call``."""
    assert call[0] == "call"
    a = f.node.args
    pos = [x.arg for x in a.posonlyargs + a.args]
    out: dict[str, Term] = {}
    if bound and pos:
        fn = call[1]
        if fn[0] == "attr":
            out[pos[0]] = fn[1]
        pos = pos[1:]
    elif f.name in ("__init__", "__post_init__") and pos and call[1][0] == "global" and call[1][1] in ():
        pos = pos[1:]
    args = list(call[2])
    # constructor call: Class(...) binds to __init__(self, ...)
    if call[1][0] == "global" and f.cls is not None and call[1][1] == f.cls.qualname and pos and f.name in ("__init__",):
        pos = pos[1:] if pos and pos[0] in ("self",) else pos
    for p, v in zip(pos, args):
        if v[0] == "star":
            break
        out[p] = v
    names = set(pos) | {x.arg for x in a.kwonlyargs}
    for k, v in call[3]:
        if k in names:
            out[k] = v
    return out
